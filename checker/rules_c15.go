package main

import (
	"fmt"
	"go/ast"
	"go/constant"
	"go/token"
	"go/types"
	"sort"
	"strings"

	"golang.org/x/tools/go/ssa"
)

func init() {
	register(&propCheck{
		ID:      "C15",
		Run:     runC15,
		NeedSSA: true,
		Level:   "Static analysis (constant evaluation of the registry literal against a transcribed specification table; abstract interpretation of the lookup; alias analysis of its result; bit-lane analysis of the header packing). Decides: registry/<name> — each entry's class, field number and payload width equal spec/oxm_registry.json (OpenFlow 1.3.5 Table 12, OVS meta-flow.h), names unique after upper-casing; lookup — the key is upper-cased before the map access, the result's width doubles and its mask flag is set exactly in the mask branch, class/field are copied, and doubling cannot wrap uint8 for any registered width; fresh — the returned pointer is a new allocation that copies no pointer from the table; lanes — MarshalHeader/UnmarshalHeader place class, field, mask flag and length in disjoint lanes of the 32-bit word at the specified positions and are inverse on all 32 bits (covers all 2^32 words at once). Not decided: nothing numeric is sampled. Also decided: unpack-total — the 4-byte header decoder refuses nothing but a short input (every word pack can produce is unpacked again).",
		Assumptions: []string{
			"spec/oxm_registry.json transcribes OpenFlow 1.3.5 Table 12 and Open vSwitch lib/meta-flow.h (hand-transcribed; an error there is a false alarm or a miss)",
			"strings.ToUpper is the case folding the statement means",
		},
	})
}

type regEntry struct {
	Name                string
	Class, Field, Width int64
	Pos                 token.Pos
	OK                  bool
}

// registryEntries constant-evaluates the field registry literal.
func (w *World) registryEntries() ([]regEntry, string) {
	of := w.ByName["openflow13"]
	if of == nil {
		return nil, "package openflow13 not found"
	}
	v, _ := of.Types.Scope().Lookup("oxxFieldHeaderMap").(*types.Var)
	if v == nil {
		return nil, "the field registry openflow13.oxxFieldHeaderMap not found"
	}
	val, why := w.FoldGlobal(v)
	if why != "" {
		return nil, "the field registry's initial value is not a closed term the checker can fold: " + why
	}
	m, ok := val.(*cMap)
	if !ok {
		return nil, "the field registry is not initialised to a map"
	}
	var out []regEntry
	for _, k := range m.Keys {
		e := regEntry{Name: k, Pos: m.Pos[k]}
		ev := m.V[k]
		if p, ok := ev.(*cPtr); ok {
			ev = p.To
		}
		if s, ok := ev.(*cStruct); ok {
			c, ok1 := s.F["Class"].(cInt)
			f, ok2 := s.F["Field"].(cInt)
			l, ok3 := s.F["Length"].(cInt)
			hm, ok4 := s.F["HasMask"].(cBool)
			e.Class, e.Field, e.Width = c.V, f.V, l.V
			e.OK = ok1 && ok2 && ok3 && ok4 && !hm.B
		}
		out = append(out, e)
	}
	return out, ""
}

type regSpec struct {
	Doc     string             `json:"_doc"`
	Entries map[string][]int64 `json:"entries"` // name -> [class, field, width]
}

func runC15(w *World, r *Report) {
	r.Rule("shiftwidth", "no shift by a constant count that is as large as its operand's type (the value would always be 0: bits lost before widening)", 1)
	shiftWidthRule(w, r, "shiftwidth", func(fi *FuncInfo) bool { return fi.Pkg.Types.Name() == "openflow13" })
	r.Rule("stateless", "lookups depend on no package-level state that a call can change and race on none", 8)
	importStateless(w, r, "stateless")
	r.Rule("registry", "each registry entry equals its specification row (class, field number, width)", 120)
	r.Rule("helper", "newMatchFieldHeader builds {Class, Field, Length} from its arguments with HasMask false", 1)
	r.Rule("names", "every name the module hands to the registry lookup is a registered constant, a parameter passed through, or a registered prefix with a decimal index", 10)
	lookupNamesRule(w, r)
	r.Rule("lookup", "case folding, width doubling and mask flag of the lookup", 5)
	r.Rule("fresh", "the lookup returns a fresh allocation that copies no pointer from the table", 1)
	// the 4-byte header codec: unpack accepts every word pack can produce — its only refusal is a short input
	// (the reject rule of C04, for this one decoder)
	r.Rule("unpack-total", "the header decoder refuses nothing but a short input: every 32-bit word pack produces is unpacked again", 1)
	if r.Prop == "C15" {
		rejectOnly = func(fi *FuncInfo) bool { return fi.Key == "openflow13.MatchField.UnmarshalHeader" }
		rejectRule(w, r, "unpack-total", func(pkg string) bool { return pkg == "openflow13" })
		rejectOnly = nil
	}
	runC15Lanes(w, r)
	var spec regSpec
	if err := loadSpec("oxm_registry.json", &spec); err != nil {
		r.Fail(VUndecided, "registry", "spec", "", "-", err.Error())
		return
	}
	entries, errs := w.registryEntries()
	if errs != "" {
		r.Fail(VViolation, "registry", "openflow13.oxxFieldHeaderMap", "", "-", errs)
		return
	}
	seen := map[string]bool{}
	maxW := int64(0)
	for _, e := range entries {
		up := strings.ToUpper(e.Name)
		if seen[up] {
			r.Fail(VViolation, "registry", e.Name, "unique", w.Pos(e.Pos), "duplicate registry name after upper-casing")
		}
		seen[up] = true
		if e.Name != up {
			r.Fail(VViolation, "registry", e.Name, "case", w.Pos(e.Pos), "registry key is not upper-case: the case-folded lookup can never find it")
		}
		if !e.OK {
			r.Fail(VUndecided, "registry", e.Name, "", w.Pos(e.Pos), "entry is not built from constants by newMatchFieldHeader")
			continue
		}
		row, ok := spec.Entries[e.Name]
		if !ok {
			r.Fail(VUnmapped, "registry", e.Name, "", w.Pos(e.Pos), "no specification row for this name in spec/oxm_registry.json")
			continue
		}
		if e.Width > maxW {
			maxW = e.Width
		}
		var diffs []string
		if row[0] != e.Class {
			diffs = append(diffs, fmt.Sprintf("class 0x%04x, specified 0x%04x", e.Class, row[0]))
		}
		if row[1] != e.Field {
			diffs = append(diffs, fmt.Sprintf("field number %d, specified %d", e.Field, row[1]))
		}
		if row[2] != e.Width {
			diffs = append(diffs, fmt.Sprintf("payload width %d, specified %d", e.Width, row[2]))
		}
		if len(diffs) == 0 {
			r.OK("registry", e.Name, "", w.Pos(e.Pos), fmt.Sprintf("class 0x%04x field %d width %d", e.Class, e.Field, e.Width), true)
		} else {
			r.Fail(VViolation, "registry", e.Name, "", w.Pos(e.Pos), strings.Join(diffs, "; "))
		}
	}
	var missing []string
	for n := range spec.Entries {
		if !seen[n] {
			missing = append(missing, n)
		}
	}
	sort.Strings(missing)
	for _, n := range missing {
		r.Fail(VViolation, "registry", n, "", "-", "name has a specification row but is no longer registered")
	}

	// helper
	if fi := w.Funcs["openflow13.newMatchFieldHeader"]; fi != nil {
		cs := w.CtorSummary(fi)
		get := func(p string) string {
			if v, ok := cs.Fields[p]; ok {
				return v.valString()
			}
			return "<unset>"
		}
		got := []string{get("$.Class"), get("$.Field"), get("$.Length"), get("$.HasMask")}
		want := []string{"val(arg:class)", "val(arg:field)", "val(arg:length)", "false"}
		if strings.Join(got, ",") == strings.Join(want, ",") {
			r.OK("helper", "openflow13.newMatchFieldHeader", "", w.Pos(fi.Decl.Pos()), "Class, Field, Length copied from the arguments, HasMask false", true)
		} else {
			r.Fail(VViolation, "helper", "openflow13.newMatchFieldHeader", "", w.Pos(fi.Decl.Pos()), "builds {Class,Field,Length,HasMask} = {"+strings.Join(got, ", ")+"}, want {"+strings.Join(want, ", ")+"}")
		}
	} else {
		// the table is built without that helper: the entries were folded from whatever builds them, and the
		// registry rule compared the folded class, field number and width of each with the specification
		r.OK("helper", "openflow13.newMatchFieldHeader", "", "-", "no helper of that name: the registry entries are folded directly from their initialiser", false)
	}

	// lookup
	fi := w.Funcs["openflow13.FindFieldHeaderByName"]
	if fi == nil {
		r.Fail(VViolation, "lookup", "openflow13.FindFieldHeaderByName", "", "-", "lookup function not found")
		return
	}
	w.lookupRule(r, fi, maxW)

	// fresh
	sf := w.SSAFunc(fi)
	if h, _ := w.registryIndexHelper(fi); h != nil {
		// the registry is read in the helper the lookup delegates to: the allocation and the table entry are there
		if hs := w.SSAFunc(h); hs != nil {
			sf = hs
		}
	}
	if sf == nil {
		r.Fail(VUndecided, "fresh", fi.Key, "", "-", "no SSA form")
		return
	}
	var seeds []ssa.Value
	for _, b := range sf.Blocks {
		for _, ins := range b.Instrs {
			if lk, ok := ins.(*ssa.Lookup); ok {
				if u, ok := lk.X.(*ssa.UnOp); ok {
					if g, ok := u.X.(*ssa.Global); ok && g.Name() == "oxxFieldHeaderMap" {
						seeds = append(seeds, lk)
					}
				}
			}
		}
	}
	if len(seeds) == 0 {
		r.Fail(VUndecided, "fresh", fi.Key, "", w.Pos(fi.Decl.Pos()), "the lookup no longer reads the registry map directly")
		return
	}
	a := NewAlias(w)
	sum := a.AnalyzeSeeds(sf, seeds)
	var probs []string
	if sum.returns {
		probs = append(probs, "the result may be (or contain) a pointer loaded from the registry")
	}
	for _, e := range sum.events {
		probs = append(probs, e.Kind+": "+e.What)
	}
	// the success result must be a new allocation
	alloc := false
	for _, b := range sf.Blocks {
		for _, ins := range b.Instrs {
			if ret, ok := ins.(*ssa.Return); ok && len(ret.Results) > 0 {
				if al, ok := ret.Results[0].(*ssa.Alloc); ok && al.Heap {
					alloc = true
				}
			}
		}
	}
	if !alloc {
		probs = append(probs, "no return of a value allocated in the function")
	}
	// nothing else the result holds may point into package-level storage either
	{
		r2 := NewReport(r.Prop, r.Tier)
		escapeRule(w, r2, sf)
		for _, o := range r2.Obs {
			if o.Verdict != VOK {
				probs = append(probs, o.Diag)
			}
		}
	}
	if len(probs) == 0 {
		r.OK("fresh", fi.Key, "", w.Pos(fi.Decl.Pos()), "returns a heap allocation made per call; nothing derived from the table entry is returned, stored or written through", true)
	} else {
		sort.Strings(probs)
		r.Fail(VViolation, "fresh", fi.Key, "", w.Pos(fi.Decl.Pos()), strings.Join(probs, "; "))
	}
}

// lookupRule checks the abstract result of FindFieldHeaderByName.
func (w *World) lookupRule(r *Report, fi *FuncInfo, maxW int64) {
	cs := w.CtorSummary(fi)
	pos := w.Pos(fi.Decl.Pos())
	// key folding: the map index expression must be strings.ToUpper(<name parameter>)
	folded := false
	var idxPos token.Pos
	// the lookup split into a folding wrapper and an unexported helper that indexes the registry with its
	// own parameter: the wrapper must hand the helper strings.ToUpper(name) in that position (the other
	// callers of the helper are the business of the names rule)
	if h, argIdx := w.registryIndexHelper(fi); h != nil {
		ast.Inspect(fi.Decl.Body, func(n ast.Node) bool {
			c, ok := n.(*ast.CallExpr)
			if !ok || argIdx >= len(c.Args) {
				return true
			}
			if fn := w.calleeOf(fi.Pkg.TypesInfo, c); fn == nil || fn.Origin() != h.Obj {
				return true
			}
			idxPos = c.Pos()
			if up, ok := unparen(c.Args[argIdx]).(*ast.CallExpr); ok && len(up.Args) == 1 {
				f := (&Interp{info: fi.Pkg.TypesInfo}).callee(up)
				if f != nil && f.Pkg() != nil && f.Pkg().Path() == "strings" && f.Name() == "ToUpper" {
					if aid, ok := unparen(up.Args[0]).(*ast.Ident); ok && fi.Pkg.TypesInfo.Uses[aid] == fi.Pkg.TypesInfo.Defs[fi.Decl.Type.Params.List[0].Names[0]] {
						folded = true
					}
				}
			}
			return true
		})
	}
	ast.Inspect(fi.Decl.Body, func(n ast.Node) bool {
		ix, ok := n.(*ast.IndexExpr)
		if !ok {
			return true
		}
		if id, ok := unparen(ix.X).(*ast.Ident); !ok || id.Name != "oxxFieldHeaderMap" {
			return true
		}
		idxPos = ix.Pos()
		key := unparen(ix.Index)
		// either the call itself or a local assigned exactly once from it
		isUpper := func(e ast.Expr) bool {
			call, ok := unparen(e).(*ast.CallExpr)
			if !ok || len(call.Args) != 1 {
				return false
			}
			f := (&Interp{info: fi.Pkg.TypesInfo}).callee(call)
			if f == nil || f.Pkg() == nil || f.Pkg().Path() != "strings" || f.Name() != "ToUpper" {
				return false
			}
			aid, ok := unparen(call.Args[0]).(*ast.Ident)
			return ok && fi.Pkg.TypesInfo.Uses[aid] == fi.Pkg.TypesInfo.Defs[fi.Decl.Type.Params.List[0].Names[0]]
		}
		if isUpper(key) {
			folded = true
		} else if kid, ok := key.(*ast.Ident); ok {
			obj := fi.Pkg.TypesInfo.Uses[kid]
			nAssign := 0
			ast.Inspect(fi.Decl.Body, func(m ast.Node) bool {
				if as, ok := m.(*ast.AssignStmt); ok {
					for i, l := range as.Lhs {
						if lid, ok := l.(*ast.Ident); ok && (fi.Pkg.TypesInfo.Defs[lid] == obj || fi.Pkg.TypesInfo.Uses[lid] == obj) {
							nAssign++
							if i < len(as.Rhs) && isUpper(as.Rhs[i]) && nAssign == 1 {
								folded = true
							} else {
								folded = false
							}
						}
					}
				}
				return true
			})
		}
		return true
	})
	// the raw name is looked at only through the folding (or put into a message): a test on the spelling
	// as given (a prefix check before ToUpper) makes the lookup case-sensitive again
	if len(fi.Decl.Type.Params.List) > 0 && len(fi.Decl.Type.Params.List[0].Names) > 0 {
		info := fi.Pkg.TypesInfo
		nameObj := info.Defs[fi.Decl.Type.Params.List[0].Names[0]]
		rawUse := ""
		var stack []ast.Node
		ast.Inspect(fi.Decl.Body, func(n ast.Node) bool {
			if n == nil {
				stack = stack[:len(stack)-1]
				return true
			}
			stack = append(stack, n)
			id, ok := n.(*ast.Ident)
			if !ok || info.Uses[id] != nameObj || rawUse != "" {
				return true
			}
			// the innermost enclosing call decides
			for i := len(stack) - 2; i >= 0; i-- {
				call, ok := stack[i].(*ast.CallExpr)
				if !ok {
					if _, isBin := stack[i].(*ast.BinaryExpr); isBin {
						rawUse = "a comparison at " + w.Pos(id.Pos())
						return true
					}
					continue
				}
				f := (&Interp{info: info}).callee(call)
				switch {
				case f != nil && f.Pkg() != nil && f.Pkg().Path() == "strings" && (f.Name() == "ToUpper" || f.Name() == "ToLower" || f.Name() == "TrimSpace"):
				case f != nil && f.Pkg() != nil && (f.Pkg().Path() == "fmt" || f.Pkg().Path() == "errors" || strings.HasSuffix(f.Pkg().Path(), "logrus") || f.Pkg().Path() == "log"):
				default:
					rawUse = types.ExprString(call.Fun) + " at " + w.Pos(call.Pos())
				}
				return true
			}
			return true
		})
		if rawUse != "" {
			r.Fail(VViolation, "lookup", fi.Key, "rawname", pos, "the name as given (before case folding) is examined by "+rawUse+": names that differ from the registered spelling only in case are treated differently, so the lookup is not case-insensitive")
		} else {
			r.OK("lookup", fi.Key, "rawname", pos, "the name parameter is used only as the argument of the case folding and in messages", true)
		}
	}
	if folded {
		r.OK("lookup", fi.Key, "casefold", w.Pos(idxPos), "the registry is indexed by strings.ToUpper(name)", true)
	} else {
		r.Fail(VViolation, "lookup", fi.Key, "casefold", pos, "the registry is not indexed by strings.ToUpper of the name parameter: the lookup is not case-insensitive")
	}
	get := func(p string) string {
		if v, ok := cs.Fields[p]; ok {
			return v.valString()
		}
		return "<unset>"
	}
	// find the name of the registry element as the interpreter spells it
	lenS, cls, fld, hm := get("$.Length"), get("$.Class"), get("$.Field"), get("$.HasMask")
	elem := ""
	if strings.HasPrefix(cls, "val(") && strings.HasSuffix(cls, ".Class)") {
		elem = cls[4 : len(cls)-7]
	}
	if elem == "" || !strings.Contains(elem, "oxxFieldHeaderMap") {
		r.Fail(VViolation, "lookup", fi.Key, "class", pos, "result.Class = "+cls+", want the registry entry's Class")
	} else {
		r.OK("lookup", fi.Key, "class", pos, "result.Class = "+cls, true)
	}
	if fld == "val("+elem+".Field)" && elem != "" {
		r.OK("lookup", fi.Key, "field", pos, "result.Field = "+fld, true)
	} else {
		r.Fail(VViolation, "lookup", fi.Key, "field", pos, "result.Field = "+fld+", want the registry entry's Field")
	}
	if hm == "arg:hasMask" {
		r.OK("lookup", fi.Key, "hasmask", pos, "result.HasMask = the hasMask argument", true)
	} else {
		r.Fail(VViolation, "lookup", fi.Key, "hasmask", pos, "result.HasMask = "+hm+", want the hasMask argument")
	}
	// width: the registered width, doubled exactly when a mask is requested (compared as terms, so the
	// spelling — a local, *= 2, <<= 1, an added copy — does not matter)
	{
		base := ValOf(elem + ".Length")
		want := Ite("arg:hasMask", base.Scale(2), base)
		lv, isInt := cs.Fields["$.Length"].(IntV)
		switch {
		case !isInt || lv.T == nil:
			r.Fail(VViolation, "lookup", fi.Key, "width", pos, "result.Length = "+lenS+", want the registered width, doubled exactly when a mask is requested")
		default:
			hasWrap := lv.T.HasAtom(func(a *Atom) bool { return a.Kind == "wrap" })
			got := negNorm(stripWraps(lv.T, map[string]bool{}))
			if !termsEqual(got, negNorm(want)) {
				r.Fail(VViolation, "lookup", fi.Key, "width", pos, "result.Length = "+lenS+", want the registered width, doubled exactly when a mask is requested")
			} else if hasWrap && maxW*2 > 255 {
				r.Fail(VViolation, "lookup", fi.Key, "width", pos, fmt.Sprintf("the masked width is doubled in uint8 and wraps for the registered width %d", maxW))
			} else if hasWrap {
				r.OK("lookup", fi.Key, "width", pos, fmt.Sprintf("result.Length = %s; doubling in uint8 cannot wrap: the widest registered field has %d bytes", lenS, maxW), true)
			} else {
				r.OK("lookup", fi.Key, "width", pos, "result.Length = "+lenS, true)
			}
		}
	}
	// errors: an unknown name must yield (nil, error)
	okErr := false
	// the comma-ok variable of the registry lookup, whatever it is called
	okName := ""
	ast.Inspect(fi.Decl.Body, func(m ast.Node) bool {
		if as, ok := m.(*ast.AssignStmt); ok && len(as.Lhs) == 2 && len(as.Rhs) == 1 {
			if ix, ok := unparen(as.Rhs[0]).(*ast.IndexExpr); ok {
				if _, isMap := fi.Pkg.TypesInfo.TypeOf(ix.X).Underlying().(*types.Map); isMap {
					if id, ok := as.Lhs[1].(*ast.Ident); ok {
						okName = id.Name
					}
				}
			}
		}
		return true
	})
	rets := cs.FS.Rets
	if h, _ := w.registryIndexHelper(fi); h != nil {
		// the not-found exit is in the helper the lookup returns the results of
		if hs := w.CtorSummary(h); hs != nil && hs.FS != nil {
			rets = hs.FS.Rets
			ast.Inspect(h.Decl.Body, func(m ast.Node) bool {
				if as, ok := m.(*ast.AssignStmt); ok && len(as.Lhs) == 2 && len(as.Rhs) == 1 {
					if ix, ok := unparen(as.Rhs[0]).(*ast.IndexExpr); ok {
						if _, isMap := h.Pkg.TypesInfo.TypeOf(ix.X).Underlying().(*types.Map); isMap {
							if id, ok := as.Lhs[1].(*ast.Ident); ok {
								okName = id.Name
							}
						}
					}
				}
				return true
			})
		}
	}
	for _, rt := range rets {
		if rt.IsErr && len(rt.Vals) == 2 {
			if _, isNil := rt.Vals[0].(NilV); isNil && (strings.Contains(rt.Guard, "!(haskey(") || okName != "" && strings.Contains(rt.Guard, okName)) {
				okErr = true
			}
		}
	}
	if okErr {
		r.OK("lookup", fi.Key, "notfound", pos, "an unregistered name returns (nil, error)", true)
	} else {
		r.Fail(VViolation, "lookup", fi.Key, "notfound", pos, "no (nil, error) return under the not-found condition")
	}
}

// lookupNamesRule: every name the module hands to the registry lookup is a registered constant, the
// caller's own parameter passed through, or a constant prefix followed by the decimal form of an index
// (fmt.Sprintf("PREFIX%d", i), "PREFIX"+strconv.Itoa(i)) such that PREFIX0 is registered. A name put
// together in another way (a single rune appended for the index) names the right entry only for some
// indices, and the lookup's error is discarded by these helpers.
func lookupNamesRule(w *World, r *Report) {
	entries, why := w.registryEntries()
	if len(entries) == 0 {
		r.Fail(VUndecided, "names", "openflow13.oxxFieldHeaderMap", "", "-", why)
		return
	}
	reg := map[string]bool{}
	for _, e := range entries {
		reg[e.Name] = true
	}
	n := 0
	var rawHelper *FuncInfo
	rawIdx := 0
	if lf := w.Funcs["openflow13.FindFieldHeaderByName"]; lf != nil {
		rawHelper, rawIdx = w.registryIndexHelper(lf)
	}
	for _, key := range w.sortedFuncKeys() {
		fi := w.Funcs[key]
		if fi.Decl.Body == nil {
			continue
		}
		if rawHelper != nil && key == "openflow13.FindFieldHeaderByName" {
			continue // the wrapper's own call of the helper is the casefold obligation
		}
		info := fi.Pkg.TypesInfo
		params := map[types.Object]bool{}
		for _, p := range paramObjs(fi) {
			if p != nil {
				params[p] = true
			}
		}
		site := 0
		ast.Inspect(fi.Decl.Body, func(nd ast.Node) bool {
			c, ok := nd.(*ast.CallExpr)
			if !ok || len(c.Args) < 1 {
				return true
			}
			fn := w.calleeOf(info, c)
			if fn == nil {
				return true
			}
			raw := rawHelper != nil && fn.Origin() == rawHelper.Obj
			if fn.Name() != "FindFieldHeaderByName" && !raw {
				return true
			}
			site++
			n++
			inst := fmt.Sprintf("site#%d", site)
			pos := w.Pos(c.Pos())
			argAt := 0
			if raw {
				argAt = rawIdx
			}
			if argAt >= len(c.Args) {
				return true
			}
			arg := unparen(c.Args[argAt])
			if raw {
				// the helper indexes the registry with the name as given: only a spelling that is already the
				// registered (upper-case) one may reach it
				if tv, ok := info.Types[arg]; ok && tv.Value != nil && tv.Value.Kind() == constant.String {
					if name := constant.StringVal(tv.Value); reg[name] {
						r.OK("names", fi.Key, inst, pos, "constant registered name "+name+" (exact spelling) handed to the case-sensitive helper", true)
					} else {
						r.Fail(VViolation, "names", fi.Key, inst, pos, "the constant "+name+" handed to the case-sensitive helper "+rawHelper.Key+" is not a registered spelling")
					}
					return true
				}
				if up, ok := arg.(*ast.CallExpr); ok && len(up.Args) == 1 {
					if f := w.calleeOf(info, up); f != nil && f.Pkg() != nil && f.Pkg().Path() == "strings" && f.Name() == "ToUpper" {
						r.OK("names", fi.Key, inst, pos, "the name is upper-cased here before it reaches the case-sensitive helper", true)
						return true
					}
				}
				if id, isId := arg.(*ast.Ident); isId && params[info.Uses[id]] {
					r.Fail(VViolation, "names", fi.Key, inst, pos, "the caller's spelling of the name is handed to "+rawHelper.Key+", which indexes the registry without case folding: a name that differs from the registered one only in case is not found through "+fi.Key)
					return true
				}
			}
			if tv, ok := info.Types[arg]; ok && tv.Value != nil && tv.Value.Kind() == constant.String {
				name := strings.ToUpper(constant.StringVal(tv.Value))
				if reg[name] {
					r.OK("names", fi.Key, inst, pos, "constant registered name "+name, true)
				} else {
					r.Fail(VViolation, "names", fi.Key, inst, pos, "the constant name "+name+" is not in the registry: the lookup fails, and the constructors discard its error")
				}
				return true
			}
			id, isId := arg.(*ast.Ident)
			if isId && params[info.Uses[id]] && countAssignsTo(info, fi.Decl.Body, info.Uses[id]) == 0 {
				r.OK("names", fi.Key, inst, pos, "the caller's name passed through", false)
				return true
			}
			// a local built once from a constant prefix and a decimal index
			var build ast.Expr = arg
			if isId {
				nAssign := 0
				ast.Inspect(fi.Decl.Body, func(m ast.Node) bool {
					if as, ok := m.(*ast.AssignStmt); ok {
						for i, l := range as.Lhs {
							if identObj(info, l) == info.Uses[id] && i < len(as.Rhs) {
								nAssign++
								build = unparen(as.Rhs[i])
							}
						}
					}
					return true
				})
				if nAssign != 1 {
					build = nil
				}
			}
			prefix := ""
			switch b := build.(type) {
			case *ast.CallExpr:
				// fmt.Sprintf("PREFIX%d", i)
				if f := w.calleeOf(info, b); f != nil && f.Pkg() != nil && f.Pkg().Path() == "fmt" && f.Name() == "Sprintf" && len(b.Args) == 2 {
					if tv, ok := info.Types[b.Args[0]]; ok && tv.Value != nil && tv.Value.Kind() == constant.String {
						f := constant.StringVal(tv.Value)
						if strings.HasSuffix(f, "%d") && strings.Count(f, "%") == 1 && isIntType(info.TypeOf(b.Args[1])) {
							prefix = strings.TrimSuffix(f, "%d")
						}
					}
				}
			case *ast.BinaryExpr:
				// "PREFIX" + strconv.Itoa(i)
				if b.Op == token.ADD {
					if tv, ok := info.Types[b.X]; ok && tv.Value != nil && tv.Value.Kind() == constant.String {
						if c2, ok := unparen(b.Y).(*ast.CallExpr); ok {
							if f := w.calleeOf(info, c2); f != nil && f.Pkg() != nil && f.Pkg().Path() == "strconv" && f.Name() == "Itoa" {
								prefix = constant.StringVal(tv.Value)
							}
						}
					}
				}
			}
			switch {
			case prefix == "":
				r.Fail(VViolation, "names", fi.Key, inst, pos, "the name handed to the lookup is neither a registered constant, a parameter passed through, nor a constant prefix with the decimal form of an index ("+types.ExprString(arg)+"): it need not name a registered field for every index, and the lookup's error is not looked at")
			case !reg[strings.ToUpper(prefix)+"0"]:
				r.Fail(VViolation, "names", fi.Key, inst, pos, "no field "+prefix+"0 is registered: the indexed names built here are not those of the registry")
			default:
				r.OK("names", fi.Key, inst, pos, "indexed name "+prefix+"<decimal index>; "+prefix+"0 is registered", true)
			}
			return true
		})
	}
	r.Stats["lookup_call_sites"] = n
}

func countAssignsTo(info *types.Info, body ast.Node, o types.Object) int {
	n := 0
	ast.Inspect(body, func(m ast.Node) bool {
		if as, ok := m.(*ast.AssignStmt); ok {
			for _, l := range as.Lhs {
				if identObj(info, l) == o {
					n++
				}
			}
		}
		return true
	})
	return n
}

// registryIndexHelper: when fi does not index the registry itself but calls an unexported function of its
// package that does so with one of its own parameters as the key, that function and the parameter's index.
func (w *World) registryIndexHelper(fi *FuncInfo) (*FuncInfo, int) {
	indexes := func(g *FuncInfo) (bool, int) {
		found, idx := false, -1
		ast.Inspect(g.Decl.Body, func(n ast.Node) bool {
			ix, ok := n.(*ast.IndexExpr)
			if !ok {
				return true
			}
			if id, ok := unparen(ix.X).(*ast.Ident); !ok || id.Name != "oxxFieldHeaderMap" {
				return true
			}
			found = true
			if kid, ok := unparen(ix.Index).(*ast.Ident); ok {
				for i, p := range paramObjs(g) {
					if p != nil && g.Pkg.TypesInfo.Uses[kid] == p && countAssignsTo(g.Pkg.TypesInfo, g.Decl.Body, p) == 0 {
						idx = i
					}
				}
			}
			return true
		})
		return found, idx
	}
	if own, _ := indexes(fi); own {
		return nil, 0
	}
	var h *FuncInfo
	hi := 0
	ast.Inspect(fi.Decl.Body, func(n ast.Node) bool {
		c, ok := n.(*ast.CallExpr)
		if !ok {
			return true
		}
		fn := w.calleeOf(fi.Pkg.TypesInfo, c)
		if fn == nil {
			return true
		}
		g := w.FuncOf(fn.Origin())
		if g == nil || g.Pkg != fi.Pkg || g.Decl.Body == nil || ast.IsExported(g.Decl.Name.Name) {
			return true
		}
		if ok, idx := indexes(g); ok && idx >= 0 {
			h, hi = g, idx
		}
		return true
	})
	return h, hi
}

// isRegistryLookup: fn is the by-name lookup of the field registry, or the unexported helper it delegates
// to (which takes the name in the registered spelling).
func (w *World) isRegistryLookup(fn *types.Func) bool {
	if fn == nil {
		return false
	}
	lf := w.Funcs["openflow13.FindFieldHeaderByName"]
	if lf == nil {
		return false
	}
	if fn.Origin() == lf.Obj {
		return true
	}
	if h, idx := w.registryIndexHelper(lf); h != nil && idx == 0 && fn.Origin() == h.Obj {
		return true
	}
	return false
}
