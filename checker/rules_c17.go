package main

// C17 — generic match-field builder (DESIGN §3 C17). Three clauses are
// decided; the numeric placement of value and mask is not.

import (
	"fmt"
	"go/ast"
	"go/token"
	"go/types"
	"strings"

	"golang.org/x/tools/go/types/typeutil"
)

func init() {
	register(&propCheck{
		ID:      "C17",
		Run:     runC17,
		NeedSSA: true,
		Level:   "Static analysis (guard prover on the width-copy helper, may-alias/mutation analysis of the builder's arguments on go/ssa, error-propagation rule on the typed syntax). Decides three NECESSARY clauses of the property: nopanic — in the helper that right-aligns the big integer into a width-sized slice every index, slice and allocation site is proved in range from the dominating guards (a value wider than the field, or negative, takes the error return instead of the copy), and the builder reaches the copy only through that helper; nomutate — nothing derived from the caller's value/mask arguments is written through (in particular no receiver-mutating math/big method on a pointer derived from the argument), stored, sent or returned; errprop — every call in the builder that can fail has its error bound to a variable, tested by the next statement and returned (nil value, non-nil error), and every return of the builder has exactly one of (value, error) nil. NOT decided (no static argument in reach): that the value lands at the window, that the mask covers exactly the window, that value is within mask, and byte-agreement with the dedicated register constructor — arbitrary-precision numeric results over three calling conventions.",
		Assumptions: []string{
			"math/big and reflect models in checker/alias.go (which methods mutate their receiver, which results alias their operands)",
			"(*big.Int).Bytes returns the magnitude's big-endian bytes (length >= 0)",
		},
	})
}

func runC17(w *World, r *Report) {
	r.Rule("nopanic", "the width-copy helper cannot index out of range; oversize and negative values take the error return", 2)
	r.Rule("nomutate", "the builder leaves its value and mask arguments untouched and does not retain them", 2)
	r.Rule("errprop", "errors of the lookup and of the width check reach the caller; no return is (nil, nil)", 4)
	nb := w.Funcs["openflow13.NewMatchField"]
	if nb == nil {
		r.Fail(VViolation, "errprop", "openflow13.NewMatchField", "", "-", "the generic builder openflow13.NewMatchField no longer exists (anchor cannot be resolved)")
		return
	}
	info := nb.Pkg.TypesInfo
	npos := w.Pos(nb.Decl.Pos())

	// ---------------------------------------------------------------- nopanic
	// helpers called from the builder that produce the ByteArrayField payloads
	helpers := map[*FuncInfo]bool{}
	ast.Inspect(nb.Decl.Body, func(n ast.Node) bool {
		if c, ok := n.(*ast.CallExpr); ok {
			if fn, ok := typeutil.Callee(info, c).(*types.Func); ok {
				if fi := w.FuncOf(fn); fi != nil && fi.Recv == nil {
					sig := fn.Type().(*types.Signature)
					if sig.Results().Len() >= 1 && strings.Contains(types.TypeString(sig.Results().At(0).Type(), nil), "ByteArrayField") {
						helpers[fi] = true
					}
				}
			}
		}
		return true
	})
	if len(helpers) == 0 {
		// the copy is done inline: analyse the builder itself
		helpers[nb] = true
	}
	for fi := range helpers {
		fs := w.Interpret(fi, "decode")
		pos := w.Pos(fi.Decl.Pos())
		undec := ""
		for _, n := range fs.Notes {
			if strings.Contains(n.Text, "unhandled") || strings.Contains(n.Text, "goto") || strings.Contains(n.Text, "general for loop") {
				undec = normNote(n.Text)
			}
		}
		if undec != "" {
			r.Fail(VUndecided, "nopanic", fi.Key, "", pos, "shape outside the interpreter's language: "+undec)
			continue
		}
		seen := map[string]bool{}
		for _, s := range fs.Sites {
			inst := s.Kind + ":" + normSite(s.Text)
			if seen[inst] {
				continue
			}
			seen[inst] = true
			okAll := true
			var failed Need
			for _, nd := range s.Needs {
				if ok, _ := Prove(nd.A, nd.B, s.Facts); !ok {
					okAll = false
					failed = nd
					break
				}
			}
			if okAll {
				var fs []string
				for _, f := range s.Facts {
					fs = append(fs, f.String())
				}
				r.OK("nopanic", fi.Key, inst, w.Pos(s.Pos), "in range under {"+strings.Join(fs, "; ")+"}", true)
			} else {
				r.Fail(VViolation, "nopanic", fi.Key, inst, w.Pos(s.Pos), fmt.Sprintf("%s: %s needs %v <= %v, which no dominating guard gives — a value wider than the field panics here instead of being reported", s.Text, failed.What, failed.A, failed.B))
			}
		}
		// negative values: a sign test guards the copy
		hasSign := false
		ast.Inspect(fi.Decl.Body, func(n ast.Node) bool {
			if c, ok := n.(*ast.CallExpr); ok {
				if fn, ok := typeutil.Callee(fi.Pkg.TypesInfo, c).(*types.Func); ok && fn.Pkg() != nil && fn.Pkg().Path() == "math/big" && (fn.Name() == "Sign" || fn.Name() == "Cmp") {
					hasSign = true
				}
			}
			return true
		})
		if fi != nb {
			if hasSign {
				r.OK("nopanic", fi.Key, "sign", pos, "the sign of the value is tested before its magnitude is copied", true)
			} else {
				r.Fail(VViolation, "nopanic", fi.Key, "sign", pos, "the magnitude of the value is copied without a sign test: a negative input is silently encoded as its absolute value")
			}
		}
	}

	// ---------------------------------------------------------------- nomutate
	fn := w.SSAFunc(nb)
	if fn == nil {
		r.Fail(VUndecided, "nomutate", nb.Key, "", npos, "no SSA form for the generic builder")
	} else {
		for idx, p := range fn.Params {
			if idx == 0 {
				continue // the field name (a string)
			}
			a := NewAlias(w)
			sum := a.AnalyzeParam(fn, idx)
			inst := "arg:" + p.Name()
			bad := false
			dedup := map[string]bool{}
			for _, e := range sum.events {
				k := e.Kind + ":" + e.What
				if dedup[k] {
					continue
				}
				dedup[k] = true
				bad = true
				v := VViolation
				if e.Kind == "unmodelled" {
					v = VUndecided
				}
				r.Fail(v, "nomutate", nb.Key, inst+"/"+e.Kind+"@"+ssaFuncKey(w, e.Fn), w.Pos(e.Pos), fmt.Sprintf("the caller's argument %s: %s", p.Name(), e.What))
			}
			if sum.returns {
				bad = true
				r.Fail(VViolation, "nomutate", nb.Key, inst+"/return", npos, "the result may alias the caller's argument "+p.Name())
			}
			if !bad {
				r.OK("nomutate", nb.Key, inst, npos, fmt.Sprintf("%d functions receive a value derived from it; none writes through, stores, sends or returns it", len(a.Visited)), true)
			}
		}
	}

	// ---------------------------------------------------------------- errprop
	errT := types.Universe.Lookup("error").Type()
	isNilLit := func(e ast.Expr) bool {
		id, ok := unparen(e).(*ast.Ident)
		return ok && id.Name == "nil" && info.Uses[id] == types.Universe.Lookup("nil")
	}
	// (a) every return: exactly one of (value, error) is nil
	nRet := 0
	ast.Inspect(nb.Decl.Body, func(n ast.Node) bool {
		if _, ok := n.(*ast.FuncLit); ok {
			return false
		}
		rs, ok := n.(*ast.ReturnStmt)
		if !ok {
			return true
		}
		nRet++
		if len(rs.Results) != 2 {
			r.Fail(VUndecided, "errprop", nb.Key, fmt.Sprintf("return#%d", nRet), w.Pos(rs.Pos()), "return without explicit (value, error) results")
			return true
		}
		v0, v1 := isNilLit(rs.Results[0]), isNilLit(rs.Results[1])
		switch {
		case v0 && v1:
			r.Fail(VViolation, "errprop", nb.Key, fmt.Sprintf("return#%d", nRet), w.Pos(rs.Pos()), "a path returns (nil, nil): the caller gets neither a field nor an error")
		case !v0 && !v1:
			r.Fail(VViolation, "errprop", nb.Key, fmt.Sprintf("return#%d", nRet), w.Pos(rs.Pos()), "a path returns a field together with an error expression")
		default:
			r.OK("errprop", nb.Key, fmt.Sprintf("return#%d", nRet), w.Pos(rs.Pos()), "exactly one of (field, error) is nil", false)
		}
		return true
	})
	// (b) every fallible call: error bound, tested by the next statement, returned
	var checkBlock func(list []ast.Stmt)
	nFallible := 0
	checkStmtCalls := func(st ast.Stmt, next ast.Stmt) {
		as, ok := st.(*ast.AssignStmt)
		var call *ast.CallExpr
		if ok && len(as.Rhs) == 1 {
			call, _ = unparen(as.Rhs[0]).(*ast.CallExpr)
		}
		if es, ok := st.(*ast.ExprStmt); ok {
			call, _ = unparen(es.X).(*ast.CallExpr)
		}
		if call == nil {
			return
		}
		fnc, _ := typeutil.Callee(info, call).(*types.Func)
		if fnc == nil || w.FuncOf(fnc) == nil {
			return // only the module's own fallible helpers carry the property's error cases
		}
		sig := fnc.Type().(*types.Signature)
		ei := -1
		for i := 0; i < sig.Results().Len(); i++ {
			if types.Identical(sig.Results().At(i).Type(), errT) {
				ei = i
			}
		}
		if ei < 0 {
			return
		}
		nFallible++
		inst := "call:" + fnc.Name()
		if as == nil || ei >= len(as.Lhs) {
			r.Fail(VViolation, "errprop", nb.Key, inst, w.Pos(call.Pos()), "the error result of "+fnc.Name()+" is discarded")
			return
		}
		eo := identObj(info, as.Lhs[ei])
		if eo == nil {
			r.Fail(VViolation, "errprop", nb.Key, inst, w.Pos(call.Pos()), "the error result of "+fnc.Name()+" is assigned to the blank identifier")
			return
		}
		is, ok := next.(*ast.IfStmt)
		tested := false
		if ok {
			if be, ok := unparen(is.Cond).(*ast.BinaryExpr); ok && be.Op == token.NEQ && identObj(info, be.X) == eo && isNilLit(be.Y) {
				// the body returns (nil, non-nil)
				for _, bs := range is.Body.List {
					if rs, ok := bs.(*ast.ReturnStmt); ok && len(rs.Results) == 2 && isNilLit(rs.Results[0]) && !isNilLit(rs.Results[1]) {
						tested = true
					}
				}
			}
		}
		if tested {
			r.OK("errprop", nb.Key, inst, w.Pos(call.Pos()), "error bound, tested by the next statement and returned with a nil field", true)
		} else {
			r.Fail(VViolation, "errprop", nb.Key, inst, w.Pos(call.Pos()), "the error of "+fnc.Name()+" is not tested by the next statement and returned: the builder continues with an invalid field")
		}
	}
	checkBlock = func(list []ast.Stmt) {
		for i, st := range list {
			var next ast.Stmt
			if i+1 < len(list) {
				next = list[i+1]
			}
			// `if x, err := f(); err != nil {…}` form
			if is, ok := st.(*ast.IfStmt); ok && is.Init != nil {
				checkStmtCalls(is.Init, &ast.IfStmt{Cond: is.Cond, Body: is.Body})
			} else {
				checkStmtCalls(st, next)
			}
			switch x := st.(type) {
			case *ast.IfStmt:
				checkBlock(x.Body.List)
				if eb, ok := x.Else.(*ast.BlockStmt); ok {
					checkBlock(eb.List)
				}
			case *ast.BlockStmt:
				checkBlock(x.List)
			case *ast.ForStmt:
				checkBlock(x.Body.List)
			case *ast.RangeStmt:
				checkBlock(x.Body.List)
			}
		}
	}
	checkBlock(nb.Decl.Body.List)
	r.Stats["fallible_calls_in_builder"] = nFallible
	r.Stats["returns_in_builder"] = nRet
}
