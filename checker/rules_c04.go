package main

// C04 — parsed messages expose what was on the wire (DESIGN §3 C04).

import (
	"encoding/json"
	"fmt"
	"go/ast"
	"go/token"
	"go/types"
	"regexp"
	"sort"
	"strings"
)

func init() {
	register(&propCheck{
		ID:    "C04",
		Run:   runC04,
		Level: "Static analysis (read records of every decoder against the hand-transcribed layout tables; dispatcher tables; receiver typestate). Decides: dispatch/<dispatcher>/<code> — each type code of a message the library can receive allocates the kind the table names (Parse by ofp_type, error vs experimenter error, the multipart reply body by multipart type, vendor payloads by experimenter type), and each OXM class/field case of the match-field dispatcher allocates a payload kind whose constant size equals the registry width of that field; rlayout/<kind>/<field> — the decoder has a read record at the specified offset, width and byte order that fills the Go field the table maps to the wire field (children at their offsets; sizes after facts), and fills nothing from an offset the table does not list; prealloc/<alloc site> — a decoder that copies into, or advances its cursor by the length of, a receiver slice it did not allocate itself needs a receiver built by the kind's constructor: every allocation of such a kind in the decode call graph is that constructor; retain/<decoder>/<loop> — elements decoded in list loops are stored into the receiver. With C07 (no panic) these give: nothing specified on the wire is dropped, shifted or read from a neighbouring field, for mapped kinds. Not decided: equality of values as such; packed sub-byte fields (lanes rules); kinds the table marks as deviating (known findings: OpenFlow 1.0 statistics structures). Also decided: extent/<kind> (the C05 rule) — the size a decoded element reports, by which every list decoder steps on, equals the bytes the element occupies. Also decided: errfail (as in C02); exhaust takes every comparison of a conjunctive loop condition. exhaust also reads an `if <comparison> { break }` standing directly in a list loop's body (the rest-is-padding exit) as one more conjunct of the loop condition.",
		Assumptions: []string{
			"spec/layout.json, spec/codes.json, spec/oxm_registry.json transcribe the cited specifications",
			"reviewed fixed-width facts of checker/premises.go for receivers built by their constructors",
		},
	})
}

// decoderRows returns the normalised read records of a kind's decoder, in the
// row format of the layout tables, plus the receiver slices whose length the
// decoder depends on (prealloc).
func (w *World) decoderRows(k *Kind, dfi *FuncInfo) (rows [][5]string, needs []string) {
	ds := w.Interpret(dfi, "decode")
	used := map[string]bool{}
	kf := w.Facts(k)
	inv := map[string]*Term{}
	for _, rd := range ds.Reads {
		if (rd.Kind == "int" || rd.Kind == "byte") && strings.HasPrefix(rd.Src, "val($") {
			f := rd.Src[4 : len(rd.Src)-1]
			key := "val(P[" + rd.Off.String() + "])"
			if rd.Kind == "int" {
				key = fmt.Sprintf("val(P[%s:%s])", rd.Off.String(), rd.W.String())
			}
			if _, dup := inv[key]; !dup {
				inv[key] = ValOf(f)
			}
		}
	}
	objField := map[string]string{}
	if ds.Final != nil {
		fields := map[string]Val{}
		canonFields(ds.Final, "$", "$", fields, 0)
		put := func(obj, f string) {
			if isLocalObj(obj) && !strings.Contains(f, "copyof:") {
				if old, ok := objField[obj]; !ok || f < old {
					objField[obj] = f
				}
			}
		}
		for f, v := range fields {
			switch vv := v.(type) {
			case ObjV:
				put(vv.Path, f)
			case MaybeV:
				put(vv.V.Path, f)
			case AltV:
				for _, o := range vv.Alts {
					put(o.Path, f)
				}
			}
		}
	}
	needSet := map[string]bool{}
	noteNeeds := func(t *Term) {
		t.HasAtom(func(a *Atom) bool {
			if a.Kind == "len" && strings.HasPrefix(a.Path, "$.") {
				needSet[a.Path] = true
			}
			return false
		})
	}
	norm := func(t *Term) *Term {
		if t == nil {
			return Const(0)
		}
		for o, f := range objField {
			t = t.Reroot2(o, f)
		}
		t = t.Map(func(a *Atom) *Term {
			if v, ok := inv[a.Key()]; ok {
				return v
			}
			return nil
		})
		t = stripWraps(t, used)
		t = t.Map(func(a *Atom) *Term {
			if a.Kind == "Len" && a.Path == "$" {
				return w.ExpandLens(FromAtom(a), 0) // the kind's own size function (declared-length kinds)
			}
			return nil
		})
		t = stripWraps(t, used)
		t = applyFacts(t, kf, used)
		t = w.applyPremises(k, t, used)
		t = w.applyNestedFacts(k, t, used)
		return t
	}
	seen := map[string]bool{}
	for _, rc := range ds.Reads {
		if rc.Loop != nil {
			continue // list elements: retain rule
		}
		src := rc.Src
		for _, pre := range []string{"dec(", "val("} {
			if strings.HasPrefix(src, pre+"new#") {
				inner := src[len(pre):]
				if end := strings.IndexAny(inner, ":)"); end > 0 {
					p := inner[:end]
					for o, f := range objField {
						if p == o || strings.HasPrefix(p, o+".") {
							p = f + p[len(o):]
						}
					}
					src = pre + p + inner[end:]
				}
			}
		}
		f, cls := fieldOfSrc(src)
		if cls == "" {
			continue // staged through a local: packed fields (lanes rules)
		}
		order := rc.Order
		switch cls {
		case "child":
			src = "enc(" + f + ")"
			order = ""
		case "bytes":
			src = f
			order = ""
		case "field":
			src = "val(" + f + ")"
			if rc.W.IsConst() && rc.W.C <= 1 {
				order = ""
			}
		}
		// a copy bounded by its destination and by the rest of the input: the destination decides
		rawW := rc.W
		if a := rawW.SingleAtom(); a != nil && a.Kind == "min" {
			hasP := func(t *Term) bool {
				return t.HasAtom(func(x *Atom) bool { return x.Kind == "len" && x.Path == "P" })
			}
			switch {
			case hasP(a.Sub[0]) && !hasP(a.Sub[1]):
				rawW = a.Sub[1]
			case hasP(a.Sub[1]) && !hasP(a.Sub[0]):
				rawW = a.Sub[0]
			}
		}
		// what the decoder needs from its receiver: any offset that depends on the length of a receiver
		// slice, and the copy width of a non-padding destination
		{
			o := rc.Off
			for ob, fl := range objField {
				o = o.Reroot2(ob, fl)
			}
			noteNeeds(o)
			if cls == "bytes" && !isPadSrc(f) && !isPaddingField(w, k.Name, f) {
				ww := rawW
				for ob, fl := range objField {
					ww = ww.Reroot2(ob, fl)
				}
				noteNeeds(ww)
			}
		}
		wd := norm(rawW)
		if cls == "child" {
			wd = nil
		}
		ws := ""
		if wd != nil {
			ws = wd.String()
		}
		g := ""
		if rc.Guard != "" {
			g = "?"
		}
		row := [5]string{norm(rc.Off).String(), ws, src, order, g}
		key := strings.Join(row[:], "|")
		if !seen[key] {
			seen[key] = true
			rows = append(rows, row)
		}
	}
	{
		info := dfi.Pkg.TypesInfo
		var recv types.Object
		if dfi.Decl.Recv != nil && len(dfi.Decl.Recv.List) > 0 && len(dfi.Decl.Recv.List[0].Names) > 0 {
			recv = info.Defs[dfi.Decl.Recv.List[0].Names[0]]
		}
		ast.Inspect(dfi.Decl.Body, func(n ast.Node) bool {
			as, ok := n.(*ast.AssignStmt)
			if !ok || len(as.Rhs) != 1 {
				return true
			}
			call, ok := unparen(as.Rhs[0]).(*ast.CallExpr)
			if !ok {
				return true
			}
			se, ok := unparen(as.Lhs[0]).(*ast.SelectorExpr)
			if !ok {
				return true
			}
			id, ok := unparen(se.X).(*ast.Ident)
			if !ok || recv == nil || info.Uses[id] != recv {
				return true
			}
			if fn := w.calleeOf(info, call); fn == nil || w.FuncOf(fn) == nil {
				return true
			}
			for _, a := range call.Args {
				if off, ok := ds.In.SliceOff[unparen(a)]; ok && isByteSlice(info.TypeOf(a)) {
					g := ""
					if insideIf(dfi.Decl, as.Pos()) {
						g = "?"
					}
					rows = append(rows, [5]string{norm(off).String(), "", "enc($." + se.Sel.Name + ")", "", g})
				}
			}
			return true
		})
	}
	for p := range needSet {
		needs = append(needs, p)
	}
	sort.Strings(needs)
	return rows, needs
}

func runC04(w *World, r *Report) {
	r.Rule("stepspec", "a list decoder whose advance the wire format fixes (hello elements: next multiple of 8) advances by exactly that", 1)
	stepSpecRule(w, r, "stepspec")
	r.Rule("shiftwidth", "no shift by a constant count that is as large as its operand's type (the value would always be 0: bits lost before widening)", 1)
	shiftWidthRule(w, r, "shiftwidth", func(fi *FuncInfo) bool {
		return fi.Pkg.Types.Name() == "openflow13" || fi.Pkg.Types.Name() == "common" || fi.Pkg.Types.Name() == "protocol"
	})
	r.Rule("shadow", "no := in an inner scope re-declares a same-typed variable of the function that is read afterwards (or a named result): the value computed there would be lost", 1)
	shadowRule(w, r, "shadow", func(fi *FuncInfo) bool {
		return fi.Pkg.Types.Name() == "openflow13" || fi.Pkg.Types.Name() == "common" || fi.Pkg.Types.Name() == "protocol"
	})
	r.Rule("typednil-var", "a pointer result that can be a bare nil is not assigned to an interface-typed variable (a typed nil passes == nil tests the wrong way)", 1)
	typedNilVarRule(w, r, "typednil-var", func(fi *FuncInfo) bool {
		return fi.Pkg.Types.Name() == "openflow13" || fi.Pkg.Types.Name() == "common" || fi.Pkg.Types.Name() == "protocol"
	})
	r.Rule("tailguard", "a decoder that keeps the rest of its input from some offset admits every input that has a byte there", 1)
	tailGuardRule(w, r, "tailguard", func(k *Kind) bool { return true })
	r.Rule("observers", "methods that formatting calls implicitly (String, Error, …) leave the value unchanged", 1)
	observerRule(w, r, "observers", "openflow13", "common", "protocol", "util")
	r.Rule("reject", "every error exit of a decoder is behind a short input, a failed child or an unknown code, or is a reviewed rejection by value (spec/rejections.json)", 20)
	rejectRule(w, r, "reject", func(pkg string) bool { return pkg == "openflow13" || pkg == "common" || pkg == "protocol" })
	r.Rule("dispatch", "type codes allocate the kind the specification table names", 60)
	r.Rule("rlayout", "every specified field is read from its specified offset, width and byte order into the mapped Go field", 250)
	r.Rule("prealloc", "decoders that rely on preallocated receiver slices only ever get receivers built by the constructor", 5)
	r.Rule("retain", "elements decoded in list loops are stored into the receiver", 5)
	r.Rule("window", "a bounded window handed to a child decoder is exactly the element's declared length", 6)
	r.Rule("exhaust", "list-decoding loops run while any element can remain", 6)
	r.Rule("keepall", "an element consumed by a list loop is stored on every path", 0)
	r.Rule("padstep", "branches of a list loop agree on stepping over alignment padding", 6)
	r.Rule("errfail", "in the codecs a failed step fails the whole: the branch for a non-nil error returns a non-nil error (no log-and-continue that leaves an element out while counts and declared lengths still include it)", 50)
	errFailRule(w, r, "errfail", func(fi *FuncInfo) bool {
		n := fi.Pkg.Types.Name()
		return n == "openflow13" || n == "protocol" || n == "common"
	})
	r.Rule("extent", "the size a decoded element reports — by which every list decoder steps to the next element — equals the bytes the element occupies (the C05 rule): a size that is off shifts everything decoded after it", 60)
	extentRule(w, r, "extent")
	r.Rule("liststep", "the advance over a list element is computed from that element, not from a value remembered from an earlier iteration", 6)
	r.Rule("oxm-varlen", "variable-length OXM payloads are decoded with oxm_length (no mask) or half of it (mask)", 2)
	r.Rule("fresh", "a value decoded into inside a list loop is new in each iteration (or fully overwritten by the child decoder)", 6)
	codes, err := loadCodes()
	if err != nil {
		r.Fail(VUnmapped, "dispatch", "spec/codes.json", "", "-", err.Error())
		return
	}
	layouts, lerr := loadLayouts()
	if lerr != nil {
		r.Fail(VUnmapped, "rlayout", "spec/layout.json", "", "-", lerr.Error())
		return
	}

	// ---------------------------------------------------------------- dispatch: Parse
	if pfi := w.Funcs["openflow13.Parse"]; pfi == nil {
		r.Fail(VViolation, "dispatch", "openflow13.Parse", "", "-", "parser entry point not found")
	} else {
		cases := dispatcherCases(w, pfi)
		var names []string
		for n := range codes.ParseKinds {
			names = append(names, n)
		}
		sort.Strings(names)
		for _, n := range names {
			code := codes.OfpType[n]
			want := codes.ParseKinds[n]
			got, ok := cases[code]
			inst := fmt.Sprintf("%d:%s", code, n)
			switch {
			case !ok:
				r.Fail(VViolation, "dispatch", pfi.Key, inst, w.Pos(pfi.Decl.Pos()), fmt.Sprintf("type %d (%s) allocates no message: the parser cannot return what the switch sent", code, n))
			case got != want:
				r.Fail(VViolation, "dispatch", pfi.Key, inst, w.Pos(pfi.Decl.Pos()), fmt.Sprintf("type %d (%s) is decoded as %s; the specification's structure for it is %s", code, n, got, want))
			default:
				r.OK("dispatch", pfi.Key, inst, w.Pos(pfi.Decl.Pos()), fmt.Sprintf("type %d (%s) → %s", code, n, got), true)
			}
		}
		// the selection may live in a helper Parse calls (parseError): look there as well
		parseBodies := []*ast.BlockStmt{pfi.Decl.Body}
		ast.Inspect(pfi.Decl.Body, func(n ast.Node) bool {
			if c, ok := n.(*ast.CallExpr); ok {
				if hf := w.FuncOf(w.calleeOf(pfi.Pkg.TypesInfo, c)); hf != nil && hf != pfi && hf.Pkg == pfi.Pkg && hf.Decl.Body != nil && hf.Recv == nil {
					parseBodies = append(parseBodies, hf.Decl.Body)
				}
			}
			return true
		})
		inspectParse := func(f func(ast.Node) bool) {
			for _, b := range parseBodies {
				ast.Inspect(b, f)
			}
		}
		// error vs experimenter error (nested switch on the error type)
		nested := false
		inspectParse(func(n ast.Node) bool {
			cc, ok := n.(*ast.CaseClause)
			if !ok {
				return true
			}
			for _, e := range cc.List {
				if v, ok := constIntOf(pfi.Pkg.TypesInfo, e); ok && v == 0xffff {
					for _, st := range cc.Body {
						ast.Inspect(st, func(m ast.Node) bool {
							if c, ok := m.(*ast.CallExpr); ok {
								if id, ok := c.Fun.(*ast.Ident); ok && id.Name == "new" && len(c.Args) == 1 {
									if kk := w.KindOfType(pfi.Pkg.TypesInfo.TypeOf(c.Args[0])); kk != nil && kk.Name == "openflow13.VendorError" {
										nested = true
									}
								}
							}
							return true
						})
					}
				}
			}
			return true
		})
		if !nested {
			// the same selection written with an if: `if e.Type == 0xffff { … VendorError … }`, or
			// `if e.Type != 0xffff { …; break/return }` followed by the VendorError decode
			pinfo := pfi.Pkg.TypesInfo
			allocsVE := func(n ast.Node) bool {
				f := false
				ast.Inspect(n, func(m ast.Node) bool {
					switch c := m.(type) {
					case *ast.CallExpr:
						if id, ok := c.Fun.(*ast.Ident); ok && id.Name == "new" && len(c.Args) == 1 {
							if kk := w.KindOfType(pinfo.TypeOf(c.Args[0])); kk != nil && kk.Name == "openflow13.VendorError" {
								f = true
							}
						}
					case *ast.CompositeLit:
						if kk := w.KindOfType(pinfo.TypeOf(c)); kk != nil && kk.Name == "openflow13.VendorError" {
							f = true
						}
					}
					return true
				})
				return f
			}
			inspectParse(func(n ast.Node) bool {
				blk, ok := n.(*ast.CaseClause)
				var list []ast.Stmt
				if ok {
					list = blk.Body
				} else if b, ok := n.(*ast.BlockStmt); ok {
					list = b.List
				} else {
					return true
				}
				for i, st := range list {
					is, ok := st.(*ast.IfStmt)
					if !ok {
						continue
					}
					be, ok := unparen(is.Cond).(*ast.BinaryExpr)
					if !ok || (be.Op != token.EQL && be.Op != token.NEQ) {
						continue
					}
					x, c := be.X, be.Y
					if _, isC := constIntOf(pinfo, c); !isC {
						x, c = be.Y, be.X
					}
					v, isC := constIntOf(pinfo, c)
					se, isSel := unparen(x).(*ast.SelectorExpr)
					if !isC || v != 0xffff || !isSel || se.Sel.Name != "Type" {
						continue
					}
					if be.Op == token.EQL && allocsVE(is.Body) {
						nested = true
					}
					if be.Op == token.NEQ && !allocsVE(is.Body) && len(is.Body.List) > 0 {
						switch is.Body.List[len(is.Body.List)-1].(type) {
						case *ast.BranchStmt, *ast.ReturnStmt:
							for _, later := range list[i+1:] {
								if allocsVE(later) {
									nested = true
								}
							}
						}
					}
				}
				return true
			})
		}
		if nested {
			r.OK("dispatch", pfi.Key, "error:experimenter", w.Pos(pfi.Decl.Pos()), "error type 0xffff (OFPET_EXPERIMENTER) → openflow13.VendorError", true)
		} else {
			r.Fail(VViolation, "dispatch", pfi.Key, "error:experimenter", w.Pos(pfi.Decl.Pos()), "an error message of type 0xffff is not decoded as an experimenter error: experimenter id and type are lost")
		}
	}
	// ---------------------------------------------------------------- dispatch: multipart reply body
	if mfi := w.Funcs["openflow13.MultipartReply.UnmarshalBinary"]; mfi == nil {
		r.Fail(VViolation, "dispatch", "openflow13.MultipartReply.UnmarshalBinary", "", "-", "decoder not found")
	} else {
		cases := dispatcherCases(w, mfi)
		var names []string
		for n := range codes.MultipartBody {
			names = append(names, n)
		}
		sort.Strings(names)
		for _, n := range names {
			code := codes.MultipartType[n]
			want := codes.MultipartBody[n]
			got, ok := cases[code]
			inst := fmt.Sprintf("%d:%s", code, n)
			if ok && got == want {
				r.OK("dispatch", mfi.Key, inst, w.Pos(mfi.Decl.Pos()), fmt.Sprintf("multipart type %d (%s) → %s", code, n, got), true)
			} else {
				r.Fail(VViolation, "dispatch", mfi.Key, inst, w.Pos(mfi.Decl.Pos()), fmt.Sprintf("multipart type %d (%s) is decoded as %q; specified body %s", code, n, got, want))
			}
		}
	}
	// ---------------------------------------------------------------- dispatch: vendor payloads
	if vfi := w.Funcs["openflow13.decodeVendorData"]; vfi == nil {
		r.Fail(VViolation, "dispatch", "openflow13.decodeVendorData", "", "-", "dispatcher not found")
	} else {
		cases := dispatcherCases(w, vfi)
		want := map[int64]string{codes.NxtSubtype["SET_CONTROLLER_ID"]: "openflow13.ControllerID", codes.NxtSubtype["TLV_TABLE_MOD"]: "openflow13.TLVTableMod", codes.NxtSubtype["TLV_TABLE_REPLY"]: "openflow13.TLVTableReply",
			codes.OnfBundle["BUNDLE_CONTROL"]: "openflow13.BundleControl", codes.OnfBundle["BUNDLE_ADD_MESSAGE"]: "openflow13.BundleAdd"}
		var cs []int64
		for c := range want {
			cs = append(cs, c)
		}
		sort.Slice(cs, func(i, j int) bool { return cs[i] < cs[j] })
		for _, c := range cs {
			inst := fmt.Sprint(c)
			if cases[c] == want[c] {
				r.OK("dispatch", vfi.Key, inst, w.Pos(vfi.Decl.Pos()), fmt.Sprintf("experimenter type %d → %s", c, want[c]), true)
			} else {
				r.Fail(VViolation, "dispatch", vfi.Key, inst, w.Pos(vfi.Decl.Pos()), fmt.Sprintf("experimenter type %d is decoded as %q; specified payload %s", c, cases[c], want[c]))
			}
		}
	}
	// ---------------------------------------------------------------- dispatch: OXM payload kinds by class/field
	w.oxmDispatchRule(r, "dispatch", false)

	// ---------------------------------------------------------------- rlayout and prealloc
	needsBuilt := map[string][]string{}
	nK := 0
	for _, k := range w.KindsL {
		if k.Pkg.Name == "protocol" || k.Pkg.Name == "util" || k.Unmarshal == nil || !k.OwnUnmarshal {
			continue
		}
		dfi := w.FuncOf(k.Unmarshal)
		if dfi == nil {
			continue
		}
		pos := w.Pos(dfi.Decl.Pos())
		rows, needs := w.decoderRows(k, dfi)
		if len(needs) > 0 {
			needsBuilt[k.Name] = needs
		}
		t := layouts[k.Name]
		if t == nil {
			r.Fail(VUnmapped, "rlayout", k.Name, "", pos, "decodable kind without a layout table")
			continue
		}
		nK++
		// compare only what a decoder can be asked for: scalar fields, byte fields and children at fixed or symbolic offsets
		tt := &Layout{Cite: t.Cite}
		type window struct {
			off, w int64
			prefix string
		}
		var windows []window      // packed words: reads inside them are the lanes rules' business
		wild := map[string]bool{} // offsets whose wire value the encoder computes (stored by the decoder in a field of its own)
		optional := map[string]bool{}
		for _, row := range t.Fields {
			var o, wd int64
			_, e1 := fmt.Sscan(row[0], &o)
			_, e2 := fmt.Sscan(row[1], &wd)
			constPos := e1 == nil && e2 == nil
			switch {
			case strings.HasPrefix(row[2], "Σ("):
				wild[row[0]] = true // a total the encoder computes: the decoder may store or skip it
				continue
			case strings.Contains(row[2], "[*]") || row[2] == "zero":
				continue // lists (retain rule), padding
			case row[2] == "packed" || !strings.Contains(row[2], "$"):
				if constPos {
					windows = append(windows, window{o, wd, ""})
				}
				continue
			case strings.Contains(row[2], "oxmheader("):
				if constPos {
					p := row[2][strings.Index(row[2], "oxmheader(")+len("oxmheader(") : strings.Index(row[2], ")")]
					windows = append(windows, window{o, wd, p})
				}
				continue
			case strings.HasPrefix(row[2], "Len($"):
				wild[row[0]] = true
				continue
			case row[4] != "" || strings.Contains(row[0], "ite("):
				f, _ := fieldOfSrc(row[2])
				optional[f] = true
				continue // optional parts, and parts placed after one: the two sides decide presence differently (C03 presence / C09)
			}
			nr := row
			nr[4] = ""
			if strings.HasPrefix(row[2], "enc(") {
				nr[1] = ""
			}
			if strings.HasSuffix(row[2], ".To4()") || strings.HasSuffix(row[2], ".To16()") || strings.HasSuffix(row[2], ".Bytes()") {
				f, _ := fieldOfSrc(row[2])
				nr[2] = f
			}
			if f, cls := fieldOfSrc(nr[2]); cls == "bytes" && (nr[1] == "len("+f+")" || strings.HasPrefix(nr[1], "len(")) {
				nr[1] = "*" // variable-size byte field: the width is the field's own length
			}
			tt.Fields = append(tt.Fields, nr)
		}
		var rr [][5]string
		for _, row := range rows {
			if row[4] != "" {
				// a read under a branch of the decoder (short-input variants): counts when the table has the field at that offset
				hit := false
				for _, trow := range tt.Fields {
					if trow[2] == row[2] && trow[0] == row[0] {
						hit = true
					}
				}
				if !hit {
					continue
				}
				row[4] = ""
			}
			if wild[row[0]] {
				continue
			}
			f, _ := fieldOfSrc(row[2])
			if optional[f] {
				continue
			}
			var o int64
			inWin := false
			if _, err := fmt.Sscan(row[0], &o); err == nil {
				for _, wn := range windows {
					if o >= wn.off && o < wn.off+wn.w && (wn.prefix == "" || strings.HasPrefix(f, wn.prefix)) {
						inWin = true
					}
				}
			}
			if inWin {
				continue
			}
			for _, trow := range tt.Fields {
				if trow[2] == row[2] && trow[1] == "*" {
					row[1] = "*"
				}
			}
			rr = append(rr, row)
		}
		compareLayout(r, "rlayout", k.Name, pos, tt, rr, "read")
	}
	r.Stats["decoders_with_layout"] = nK

	// prealloc: allocations of kinds whose decoder needs a built receiver
	var kn []string
	for n := range needsBuilt {
		kn = append(kn, n)
	}
	sort.Strings(kn)
	for _, n := range kn {
		k := w.Kinds[n]
		ctors := map[*FuncInfo]bool{}
		for _, c := range w.Constructors(k) {
			ctors[c] = true
		}
		kf := w.Facts(k)
		// the constructor must size every slice the decoder depends on
		for _, p := range needsBuilt[n] {
			if _, ok := kf.Lens[p]; !ok {
				if nested := w.applyNestedFacts(k, LenOf(p), map[string]bool{}); nested.IsConst() {
					continue
				}
				r.Fail(VViolation, "prealloc", n, "ctor:"+p, "-", fmt.Sprintf("the decoder of %s copies into / steps over %s, but no constructor of the kind allocates that slice with a fixed size: whatever follows it on the wire is read from the wrong offset", n, p))
			}
		}
		// every other allocation of the kind in a function that can reach its decoder
		nsites := 0
		for _, key := range w.sortedFuncKeys() {
			fi := w.Funcs[key]
			if ctors[fi] {
				continue
			}
			info := fi.Pkg.TypesInfo
			ast.Inspect(fi.Decl.Body, func(nd ast.Node) bool {
				var t types.Type
				var what string
				switch x := nd.(type) {
				case *ast.CallExpr:
					if id, ok := x.Fun.(*ast.Ident); ok && id.Name == "new" && len(x.Args) == 1 {
						if _, isB := info.Uses[id].(*types.Builtin); isB {
							t, what = info.TypeOf(x.Args[0]), "new("+types.ExprString(x.Args[0])+")"
						}
					}
				case *ast.CompositeLit:
					t, what = info.TypeOf(x), "composite literal"
				}
				if t == nil {
					return true
				}
				if kk := w.KindOfType(t); kk == nil || kk != k {
					return true
				}
				// only receivers that are then decoded matter: the allocating function calls a decoder or is a dispatcher
				if !w.isDecoderLike(fi) {
					return true
				}
				nsites++
				r.Fail(VViolation, "prealloc", fi.Key, what, w.Pos(nd.Pos()), fmt.Sprintf("%s is allocated with %s and then decoded, but its decoder relies on %s being preallocated by the constructor: the slices are nil, nothing is copied and every later field is read %s bytes early", n, what, strings.Join(needsBuilt[n], ", "), "several"))
				return true
			})
		}
		// receivers held by value inside another kind: that kind's constructors must build them
		for _, pk := range w.KindsL {
			ps := structOf(pk.Named)
			if ps == nil || pk.Unmarshal == nil {
				continue
			}
			for i := 0; i < ps.NumFields(); i++ {
				f := ps.Field(i)
				if _, isPtr := f.Type().Underlying().(*types.Pointer); isPtr {
					continue
				}
				if kk := w.KindOfType(f.Type()); kk != k {
					continue
				}
				for _, p := range needsBuilt[n] {
					c, ok := kf.Lens[p]
					if !ok {
						continue
					}
					nested := "$." + f.Name() + p[1:]
					if w.parentBuildsChild(pk, nested, c) {
						r.OK("prealloc", pk.Name, "field:"+f.Name()+":"+p, "-", fmt.Sprintf("every constructor of %s allocates %s with %d bytes", pk.Name, nested, c), true)
					} else {
						nsites++
						r.Fail(VViolation, "prealloc", pk.Name, "field:"+f.Name()+":"+p, "-", fmt.Sprintf("%s holds a %s by value and decodes into it, but its constructors do not allocate %s (%d bytes): the nested decoder copies nothing and reads every later field from the wrong offset", pk.Name, n, nested, c))
					}
				}
			}
		}
		if nsites == 0 {
			r.OK("prealloc", n, "", "-", fmt.Sprintf("decoder relies on %s; every receiver in the decode path comes from the constructor", strings.Join(needsBuilt[n], ", ")), true)
		}
	}

	w.oxmVarLenRule(r)
	// shared necessary conditions: a decoder that tests its input length for equality does not decode inside a
	// larger message (a fast path in Parse for 8-byte frames turns an element-less hello into a bare header);
	// the packet-in payload is decoded with the header kinds' size functions, which must not wrap
	r.Rule("trailing", "decoders test the input length with lower bounds only", 60)
	trailingRule(w, r)
	// the packet-in payload is decoded by the frame decoder: its frame shapes (untagged, 802.1Q tag with any
	// VID) and its payload demultiplexing are part of what the parser exposes (C09's rules, decoder side)
	if spec, err := loadPacketLayout(); err == nil {
		r.Rule("payload", "the frame decoder behind packet-in reads both frame shapes as specified and hands the payload to the decoder the ethertype / protocol number names", 8)
		r2 := NewReport(r.Prop, r.Tier)
		lanesEthernet(w, r2)
		demuxRule(w, r2, spec)
		for _, o := range r2.Obs {
			if o.Rule == "demux" || strings.Contains(o.Instance, "dec") || o.Verdict != VOK {
				o.Subject = o.Rule + ":" + o.Subject
				o.Rule = "payload"
				r.Add(o)
			}
		}
	}
	if spec, err := loadPacketLayout(); err == nil {
		r.Rule("nowrap", "no size function of a packet-header kind (packet-in payload) computes a length in arithmetic narrower than 16 bits that the field ranges can overflow", 10)
		nowrapSizes(w, r, spec)
	}
	// ---------------------------------------------------------------- retain
	for _, k := range w.KindsL {
		if k.Unmarshal == nil || !k.OwnUnmarshal || k.Pkg.Name == "protocol" {
			continue
		}
		if dfi := w.FuncOf(k.Unmarshal); dfi != nil {
			retainRule(w, r, dfi)
			freshRule(w, r, dfi)
			windowRule(w, r, dfi)
			exhaustRule(w, r, dfi)
			keepAllRule(w, r, dfi)
			padStepRule(w, r, dfi)
			carriedStepRule(w, r, "liststep", dfi)
		}
	}
	for _, hfi := range decodeHelpers(w, func(pkg string) bool { return pkg != "protocol" && pkg != "util" && pkg != "ofbase" }) {
		freshRule(w, r, hfi)
		windowRule(w, r, hfi)
		exhaustRule(w, r, hfi)
		keepAllRule(w, r, hfi)
		padStepRule(w, r, hfi)
		carriedStepRule(w, r, "liststep", hfi)
	}
}

// oxmDispatchRule: every class/field case of DecodeMatchField that allocates a
// payload kind of constant size must agree with the registry width of that field.
// With builtCoverage the rule also asks that every class/field a constructor of the module can put into a
// match has a decoding case (the round trip's condition); without it only the fields the specification
// tables name.
func (w *World) oxmDispatchRule(r *Report, rule string, builtCoverage bool) {
	fi := w.Funcs["openflow13.DecodeMatchField"]
	if fi == nil {
		r.Fail(VViolation, rule, "openflow13.DecodeMatchField", "", "-", "dispatcher not found")
		return
	}
	var reg struct {
		Entries map[string]json.RawMessage `json:"entries"`
	}
	if err := loadSpec("oxm_registry.json", &reg); err != nil {
		r.Fail(VUnmapped, rule, "spec/oxm_registry.json", "", "-", err.Error())
		return
	}
	raw := reg.Entries
	type key struct{ class, field int64 }
	width := map[key]int64{}
	name := map[key]string{}
	for n, v := range raw {
		var row []int64
		if json.Unmarshal(v, &row) == nil && len(row) == 3 {
			k := key{row[0], row[1]}
			if old, dup := width[k]; dup && old != row[2] {
				continue // the same wire field under two names with different widths: left to the registry rule
			}
			width[k] = row[2]
			if name[k] == "" || n < name[k] {
				name[k] = n
			}
		}
	}
	if codes, err := loadCodes(); err == nil {
		for ks, wd := range codes.OxmExtra {
			var c, f int64
			if n, _ := fmt.Sscanf(ks, "0x%x/%d", &c, &f); n == 2 {
				if _, dup := width[key{c, f}]; !dup {
					width[key{c, f}] = wd
					name[key{c, f}] = "field " + ks
				}
			}
		}
	}
	info := fi.Pkg.TypesInfo
	nCases := 0
	seenCase := map[key]bool{}
	// walk `if class == C { switch field { case F: val = new(K) } }`
	var walkIf func(is *ast.IfStmt)
	oneCase := func(class, f int64, kind string, pos token.Pos) {
		k := w.Kinds[kind]
		ls := w.LenSummary(k)
		nCases++
		seenCase[key{class, f}] = true
		inst := fmt.Sprintf("%#x/%d", class, f)
		wd, known := width[key{class, f}]
		switch {
		case !known:
			r.Fail(VUnmapped, rule, fi.Key, inst, w.Pos(pos), fmt.Sprintf("class %#x field %d is decoded as %s but has no row in spec/oxm_registry.json", class, f, kind))
		case ls == nil || ls.Term == nil || !ls.Term.IsConst():
			r.OK(rule, fi.Key, inst, w.Pos(pos), fmt.Sprintf("%s → %s (variable-size payload kind)", name[key{class, f}], kind), false)
		case ls.Term.C != wd:
			r.Fail(VViolation, rule, fi.Key, inst, w.Pos(pos), fmt.Sprintf("%s (class %#x field %d) is %d bytes wide, but its payload is decoded as %s of %d bytes: value and mask are cut or shifted", name[key{class, f}], class, f, wd, kind, ls.Term.C))
		default:
			r.OK(rule, fi.Key, inst, w.Pos(pos), fmt.Sprintf("%s: %d bytes → %s", name[key{class, f}], wd, kind), true)
		}
	}
	handle := func(class int64, sw *ast.SwitchStmt) {
		for _, cc := range sw.Body.List {
			c := cc.(*ast.CaseClause)
			kind := ""
			for _, st := range c.Body {
				ast.Inspect(st, func(m ast.Node) bool {
					if call, ok := m.(*ast.CallExpr); ok && kind == "" {
						if id, ok := call.Fun.(*ast.Ident); ok && id.Name == "new" && len(call.Args) == 1 {
							if kk := w.KindOfType(info.TypeOf(call.Args[0])); kk != nil {
								kind = kk.Name
							}
						}
					}
					return true
				})
			}
			if kind == "" {
				continue // unsupported field: rejected (nil payload), C07's business
			}
			for _, e := range c.List {
				if f, ok := constIntOf(info, e); ok {
					oneCase(class, f, kind, c.Pos())
				}
			}
		}
	}
	// the same selection written as data: a package-level table of constructors indexed by the field number
	handleTable := func(class int64, body ast.Node) {
		ast.Inspect(body, func(n ast.Node) bool {
			ix, ok := n.(*ast.IndexExpr)
			if !ok {
				return true
			}
			id, ok := unparen(ix.X).(*ast.Ident)
			if !ok {
				return true
			}
			v, ok := info.Uses[id].(*types.Var)
			if !ok || v.Pkg() == nil || v.Parent() != v.Pkg().Scope() {
				return true
			}
			init, pkg := w.globalInit(v)
			cl, ok := unparen(init).(*ast.CompositeLit)
			if !ok || pkg == nil {
				return true
			}
			for _, el := range cl.Elts {
				kv, ok := el.(*ast.KeyValueExpr)
				if !ok {
					continue
				}
				f, ok := constIntOf(pkg.TypesInfo, kv.Key)
				if !ok {
					continue
				}
				if kind := allocatedKind(w, pkg.TypesInfo, kv.Value, 0); kind != "" {
					oneCase(class, f, kind, kv.Pos())
				}
			}
			return true
		})
	}
	walkIf = func(is *ast.IfStmt) {
		if be, ok := unparen(is.Cond).(*ast.BinaryExpr); ok {
			if class, ok := constIntOf(info, be.Y); ok {
				nsw := 0
				for _, st := range is.Body.List {
					if sw, ok := st.(*ast.SwitchStmt); ok {
						handle(class, sw)
						nsw++
					}
				}
				if nsw == 0 {
					handleTable(class, is.Body)
				}
			}
		}
		if next, ok := is.Else.(*ast.IfStmt); ok {
			walkIf(next)
		}
	}
	for _, st := range fi.Decl.Body.List {
		if is, ok := st.(*ast.IfStmt); ok {
			walkIf(is)
		}
	}
	if nCases < 40 {
		r.Fail(VViolation, rule, fi.Key, "inventory", w.Pos(fi.Decl.Pos()), fmt.Sprintf("only %d class/field cases recognised in the match-field dispatcher (reference tree: 90)", nCases))
	}
	// coverage: the fields the specification tables name as decoded outside the registry, and every
	// class/field a constructor of the module can put into a match, have a decoding case
	required := map[key]string{}
	if codes, err := loadCodes(); err == nil {
		for ks := range codes.OxmExtra {
			var c, f int64
			if n, _ := fmt.Sscanf(ks, "0x%x/%d", &c, &f); n == 2 {
				required[key{c, f}] = "spec/codes.json oxm_extra_widths " + ks
			}
		}
	}
	if mk := w.Kinds["openflow13.MatchField"]; mk != nil && builtCoverage {
		for _, cfi := range w.Constructors(mk) {
			cs := w.CtorSummary(cfi)
			cv, ok1 := cs.Fields["$.Class"].(IntV)
			fv, ok2 := cs.Fields["$.Field"].(IntV)
			if ok1 && ok2 && cv.T != nil && fv.T != nil && cv.T.IsConst() && fv.T.IsConst() {
				k := key{cv.T.C, fv.T.C}
				if _, have := required[k]; !have {
					required[k] = "built by " + cfi.Key
				}
			}
		}
	}
	var rk []key
	for k := range required {
		rk = append(rk, k)
	}
	sort.Slice(rk, func(i, j int) bool {
		if rk[i].class != rk[j].class {
			return rk[i].class < rk[j].class
		}
		return rk[i].field < rk[j].field
	})
	for _, k := range rk {
		inst := fmt.Sprintf("covered:%#x/%d", k.class, k.field)
		if seenCase[k] {
			r.OK(rule, fi.Key, inst, w.Pos(fi.Decl.Pos()), "has a decoding case ("+required[k]+")", true)
		} else {
			r.Fail(VViolation, rule, fi.Key, inst, w.Pos(fi.Decl.Pos()), fmt.Sprintf("class %#x field %d (%s) has no decoding case in the match-field dispatcher: a match carrying it is rejected or decoded as another field", k.class, k.field, required[k]))
		}
	}
}

// insideIf reports whether pos lies in the body of an if statement of the function.
func insideIf(fn *ast.FuncDecl, pos token.Pos) bool {
	in := false
	ast.Inspect(fn.Body, func(n ast.Node) bool {
		if is, ok := n.(*ast.IfStmt); ok && is.Body.Pos() <= pos && pos < is.Body.End() {
			in = true
		}
		return true
	})
	return in
}

// windowRule: where a decoder hands a child decoder an explicitly bounded window of its input, the window is
// exactly the element's declared extent: its width is a declared length read from the input (or a size the
// already decoded element reports), never a padded or clamped amount. A child that consumes everything it is
// given (a bitmap list, an opaque body) would otherwise take the padding or the next element for its own.
func windowRule(w *World, r *Report, dfi *FuncInfo) {
	ds := w.Interpret(dfi, "decode")
	if ds == nil || ds.In == nil || ds.In.SliceHi == nil {
		return
	}
	info := dfi.Pkg.TypesInfo
	n := 0
	ast.Inspect(dfi.Decl.Body, func(nd ast.Node) bool {
		call, ok := nd.(*ast.CallExpr)
		if !ok {
			return true
		}
		fn := w.calleeOf(info, call)
		if fn == nil {
			return true
		}
		name := fn.Name()
		if name != "UnmarshalBinary" && !strings.HasPrefix(name, "Decode") && name != "Parse" {
			return true
		}
		for _, a := range call.Args {
			sx, ok := unparen(a).(*ast.SliceExpr)
			if !ok || sx.High == nil {
				continue
			}
			hi, ok1 := ds.In.SliceHi[sx]
			lo, ok2 := ds.In.SliceOff[sx]
			if !ok1 || !ok2 {
				continue
			}
			n++
			inst := fmt.Sprintf("%s#%d", types.ExprString(call.Fun), n)
			wd := stripWraps(hi.Sub(lo), map[string]bool{})
			bad := ""
			wd.HasAtom(func(at *Atom) bool {
				switch at.Kind {
				case "round8", "min", "ite", "div", "mul", "opq":
					bad = at.Key()
					return true
				}
				return false
			})
			if bad != "" {
				if why := consumesAll(w, w.FuncOf(fn)); why == "" {
					r.OK("window", dfi.Key, inst, w.Pos(call.Pos()), fmt.Sprintf("window of %s bytes is wider than a declared length, but %s delimits itself (no read of it depends on the length of its input beyond the guards)", wd, fn.Name()), true)
					continue
				} else {
					bad += "; the child " + why
				}
			}
			switch {
			case bad != "":
				r.Fail(VViolation, "window", dfi.Key, inst, w.Pos(call.Pos()), fmt.Sprintf("the child decoder is handed %s bytes: the window is not the element's declared length (it contains %s), so padding or the following element falls inside it", wd, bad))
			case wd.IsConst():
				r.OK("window", dfi.Key, inst, w.Pos(call.Pos()), fmt.Sprintf("fixed window of %d bytes", wd.C), false)
			default:
				r.OK("window", dfi.Key, inst, w.Pos(call.Pos()), fmt.Sprintf("window of %s bytes: a declared length taken from the input", wd), true)
			}
		}
		return true
	})
}

// consumesAll reports why a decoder's result depends on how much input it is handed (beyond rejecting short
// input): a loop that runs to the end of the input, or a copy/allocation sized by the input length. Empty:
// the decoder delimits itself. Unknown callees are taken to consume everything.
func consumesAll(w *World, fi *FuncInfo) string {
	if fi == nil {
		return "is not a module function with a body (taken to consume its whole input)"
	}
	ds := w.Interpret(fi, "decode")
	if ds == nil {
		return "could not be summarised"
	}
	hasLenP := func(t *Term) bool {
		return t != nil && t.HasAtom(func(a *Atom) bool { return a.Kind == "len" && a.Path == "P" })
	}
	for _, l := range ds.Loops {
		if strings.Contains(l.Cond, "len(P)") {
			return "loops until its input is exhausted (" + w.Pos(l.Pos) + ")"
		}
		if l.CondE != nil {
			found := false
			ast.Inspect(l.CondE, func(n ast.Node) bool {
				if id, ok := n.(*ast.Ident); ok {
					if v, ok := ds.Final.vars[fi.Pkg.TypesInfo.Uses[id]]; ok {
						if iv, ok := v.(IntV); ok && hasLenP(iv.T) {
							found = true
						}
					}
				}
				return true
			})
			if found {
				return "loops until its input is exhausted (" + w.Pos(l.Pos) + ")"
			}
		}
	}
	for _, c := range ds.Copies {
		if hasLenP(c.SrcLen) || hasLenP(c.DstLen) {
			return "copies an amount that depends on the length of its input (" + w.Pos(c.Pos) + ")"
		}
	}
	for _, a := range ds.Allocs {
		if hasLenP(a.Size) {
			return "allocates an amount that depends on the length of its input (" + w.Pos(a.Pos) + ")"
		}
	}
	return ""
}

// padStepRule: the branches of one list-decoding loop advance the cursor consistently with respect to
// alignment padding: when one branch steps over an element by round8(t) and another by the bare t (the same
// length term), the second lands in the first's padding for every element whose length is not a multiple of 8.
func padStepRule(w *World, r *Report, dfi *FuncInfo) {
	ds := w.Interpret(dfi, "decode")
	if ds == nil {
		return
	}
	for li, l := range ds.Loops {
		for _, c := range l.Cursors {
			if c.Step == nil && len(c.Paths) == 0 {
				continue
			}
			inst := fmt.Sprintf("loop#%d/%s", li+1, c.Var)
			st := c.Step
			if st == nil {
				st = c.Paths[0]
			}
			t := stripWraps(st, map[string]bool{})
			bad := ""
			var arms []*Term
			var collect func(t *Term)
			collect = func(t *Term) {
				hasIte := false
				for _, k := range t.keys() {
					a := t.Atoms[k]
					if a.Kind == "ite" && len(a.Sub) == 2 {
						hasIte = true
						rest := t.AddScaled(FromAtom(a), -t.K[k])
						collect(rest.AddScaled(a.Sub[0], t.K[k]))
						collect(rest.AddScaled(a.Sub[1], t.K[k]))
						return
					}
				}
				if !hasIte && len(arms) < 16 {
					arms = append(arms, t)
				}
			}
			collect(t)
			// steps recorded per path as well
			for _, p := range c.Paths {
				if len(arms) < 32 {
					arms = append(arms, stripWraps(p, map[string]bool{}))
				}
			}
			for i := 0; i < len(arms) && bad == ""; i++ {
				for j := 0; j < len(arms); j++ {
					if i == j {
						continue
					}
					if at := arms[i].SingleAtom(); at != nil && at.Kind == "round8" && arms[i].C == 0 && arms[i].K[at.Key()] == 1 {
						if at.Sub[0].Equal(arms[j]) && !arms[i].Equal(arms[j]) && !arms[j].IsConst() {
							bad = fmt.Sprintf("one branch advances by %v, another by %v", arms[i], arms[j])
							break
						}
					}
				}
			}
			if bad != "" {
				r.Fail(VViolation, "padstep", dfi.Key, inst, w.Pos(l.Pos), bad+": the second lands inside the alignment padding of every element whose length is not a multiple of 8, and the next element is read from there")
			} else {
				r.OK("padstep", dfi.Key, inst, w.Pos(l.Pos), fmt.Sprintf("step %v: no branch skips padding another applies", st), len(arms) > 1)
			}
		}
	}
}

// leavesUnder enumerates the values a term can take over the branches of its ite atoms, with the conditions
// named in fixed decided (at most 4096 distinct leaves).
func leavesUnder(t *Term, fixed map[string]bool) []*Term {
	seen := map[string]bool{}
	var out []*Term
	var rec func(t *Term, depth int)
	rec = func(t *Term, depth int) {
		if len(out) >= 4096 || depth > 200 {
			return
		}
		for _, k := range t.keys() {
			a := t.Atoms[k]
			switch a.Kind {
			case "ite":
				rest := t.AddScaled(FromAtom(a), -t.K[k])
				pick := -1
				if v, ok := fixed[a.Cond]; ok {
					pick = boolInt(!v)
				} else if v, ok := fixed[strings.TrimSuffix(strings.TrimPrefix(a.Cond, "!("), ")")]; ok && strings.HasPrefix(a.Cond, "!(") {
					pick = boolInt(v)
				}
				for i, arm := range a.Sub {
					if pick >= 0 && i != pick {
						continue
					}
					rec(rest.AddScaled(arm, t.K[k]), depth+1)
				}
				return
			case "div", "wrap", "round8":
				// split inside the operand
				inner := leavesUnder(a.Sub[0], fixed)
				if len(inner) == 1 && inner[0].Equal(a.Sub[0]) {
					continue
				}
				rest := t.AddScaled(FromAtom(a), -t.K[k])
				for _, in := range inner {
					var na *Term
					switch a.Kind {
					case "div":
						na = Div(in, a.Sub[1])
					case "round8":
						na = Round8(in)
					default:
						na = in
					}
					rec(rest.AddScaled(na, t.K[k]), depth+1)
				}
				return
			}
		}
		if s := t.String(); !seen[s] {
			seen[s] = true
			out = append(out, t)
		}
	}
	rec(t, 0)
	return out
}

// oxmVarLenRule: a variable-length OXM payload (tunnel metadata, xxreg) is decoded with the width
// oxm_length when the field has no mask and oxm_length/2 when it has one (OpenFlow 1.3.5 §7.2.3.2: the
// length covers value and mask). The width is decided by two cooperating sites — the argument the field
// decoder passes and the case of the payload dispatcher that stores it — so the rule composes them.
func (w *World) oxmVarLenRule(r *Report) {
	caller, callee := w.Funcs["openflow13.MatchField.UnmarshalBinary"], w.Funcs["openflow13.DecodeMatchField"]
	if caller == nil || callee == nil {
		r.Fail(VViolation, "oxm-varlen", "openflow13.DecodeMatchField", "", "-", "the field decoder or the payload dispatcher no longer exists (anchor of the rule cannot be resolved)")
		return
	}
	// position of the length and mask parameters of the dispatcher
	li, mi := -1, -1
	idx := 0
	for _, fl := range callee.Decl.Type.Params.List {
		for _, nm := range fl.Names {
			switch nm.Name {
			case "length":
				li = idx
			case "hasMask":
				mi = idx
			}
			idx++
		}
	}
	if li < 0 || mi < 0 {
		r.Fail(VUndecided, "oxm-varlen", callee.Key, "", w.Pos(callee.Decl.Pos()), "the dispatcher has no parameters named length and hasMask")
		return
	}
	cs := w.Interpret(callee, "decode")
	// every width the dispatcher stores into a payload object, as a term over its length parameter
	type stored struct {
		obj string
		t   *Term
	}
	var widths []stored
	seenW := map[string]bool{}
	for _, rt := range cs.Rets {
		if rt.IsErr || rt.St == nil {
			continue
		}
		for k, v := range rt.St.fields {
			if !strings.HasPrefix(k, "new#") || !strings.HasSuffix(k, ".Length") {
				continue
			}
			if iv, ok := v.(IntV); ok && !iv.T.IsConst() && !seenW[k+iv.T.String()] {
				seenW[k+iv.T.String()] = true
				widths = append(widths, stored{k, iv.T})
			}
		}
	}
	if len(widths) == 0 {
		r.Fail(VViolation, "oxm-varlen", callee.Key, "", w.Pos(callee.Decl.Pos()), "no case of the dispatcher stores a width taken from the header length: variable-length payloads are not decoded")
		return
	}
	sort.Slice(widths, func(i, j int) bool { return widths[i].obj < widths[j].obj })
	fs := w.Interpret(caller, "decode")
	nCalls := 0
	for _, c := range fs.Calls {
		if c.Callee == nil || w.FuncOf(c.Callee) != callee || len(c.Args) <= li || len(c.Args) <= mi {
			continue
		}
		nCalls++
		la, okL := c.Args[li].(IntV)
		ma, okM := c.Args[mi].(BoolV)
		inst := fmt.Sprintf("call#%d", nCalls)
		if !okL || !okM || la.T == nil {
			r.Fail(VUndecided, "oxm-varlen", caller.Key, inst, w.Pos(c.Pos), "the length or mask argument of the dispatcher call is not a value the interpreter can follow")
			continue
		}
		// the header length as the caller read it: the single val atom of the argument
		var hdr *Term
		stripWraps(la.T, map[string]bool{}).HasAtom(func(a *Atom) bool {
			if a.Kind == "val" && hdr == nil {
				hdr = FromAtom(a)
			}
			return false
		})
		if hdr == nil {
			r.Fail(VUndecided, "oxm-varlen", caller.Key, inst, w.Pos(c.Pos), "the length argument "+la.T.String()+" is not derived from a header field")
			continue
		}
		var bad []string
		// the mask flag handed to the dispatcher must be the header's mask bit as read from the wire (not, say, a
		// receiver field that has not been assigned yet)
		if !strings.Contains(ma.Cond, "P[") {
			bad = append(bad, "the mask flag passed to the dispatcher is "+ma.Cond+", not the mask bit of the header just read: a masked variable-length field is decoded as unmasked (or the reverse)")
		}
		for _, m := range []bool{false, true} {
			want := hdr
			if m {
				want = Div(hdr, Const(2))
			}
			argLeaves := leavesUnder(stripWraps(la.T, map[string]bool{}), map[string]bool{ma.Cond: m})
			for _, wd := range widths {
				for _, leaf := range leavesUnder(stripWraps(wd.t, map[string]bool{}), map[string]bool{"arg:hasMask": m}) {
					if leaf.IsConst() {
						continue // the object is not the one allocated for this field number
					}
					for _, al := range argLeaves {
						got := leaf.Map(func(a *Atom) *Term {
							if a.Kind == "val" && a.Path == "arg:length" {
								return al
							}
							return nil
						})
						got = leavesUnder(got, nil)[0]
						if !got.Equal(want) {
							bad = append(bad, fmt.Sprintf("with mask=%v a payload is decoded with width %v, specified %v (object %s)", m, got, want, strings.TrimSuffix(wd.obj, ".Length")))
						}
					}
				}
			}
		}
		if len(bad) > 0 {
			sort.Strings(bad)
			r.Fail(VViolation, "oxm-varlen", caller.Key, inst, w.Pos(c.Pos), summarise(bad)+": the caller's argument and the dispatcher's case together must halve the header length exactly once for a masked field")
		} else {
			r.OK("oxm-varlen", caller.Key, inst, w.Pos(c.Pos), fmt.Sprintf("%d payload widths: header length without mask, half of it with mask, for the argument %v", len(widths), la.T), true)
		}
	}
	if nCalls == 0 {
		r.Fail(VViolation, "oxm-varlen", caller.Key, "", w.Pos(caller.Decl.Pos()), "the field decoder no longer calls the payload dispatcher")
	}
}

// carriedStepRule: in a loop that walks the input, the advance over an element is computed from that
// element (its reported size, a length field read at the cursor), from constants or from values fixed
// before the loop — never from a variable carried over from an earlier iteration. A step remembered from
// the first element (a cached record size) reads every later element of a different size from the wrong
// place.
func carriedStepRule(w *World, r *Report, rule string, dfi *FuncInfo) {
	ds := w.Interpret(dfi, "decode")
	if ds == nil {
		return
	}
	carried := func(t *Term) string {
		found := ""
		var look func(x *Term)
		look = func(x *Term) {
			if x == nil {
				return
			}
			for _, a := range x.Atoms {
				if found != "" {
					return
				}
				if a.Kind == "opq" && (strings.HasPrefix(a.Path, "loop:") || strings.HasPrefix(a.Path, "loopvar:") || strings.HasPrefix(a.Path, "loopfield:")) {
					found = a.Path
				}
				if a.Cond != "" {
					for _, pre := range []string{"opq(loop:", "loopvar:", "opq(loopfield:"} {
						if i := strings.Index(a.Cond, pre); i >= 0 {
							end := strings.IndexAny(a.Cond[i:], ")=<& ")
							if end < 0 {
								end = len(a.Cond) - i
							}
							found = strings.TrimPrefix(a.Cond[i:i+end], "opq(")
						}
					}
				}
				for _, s := range a.Sub {
					look(s)
				}
			}
		}
		look(t)
		return found
	}
	for li, l := range ds.Loops {
		if l.Kind != "for" {
			continue
		}
		for _, c := range l.Cursors {
			if len(c.Paths) == 0 {
				continue
			}
			allZero := true
			for _, p := range c.Paths {
				if p != nil && !p.IsZero() {
					allZero = false
				}
			}
			if allZero {
				continue
			}
			inst := fmt.Sprintf("loop#%d/%s", li+1, c.Var)
			bad := ""
			for _, p := range c.Paths {
				if p == nil {
					continue
				}
				if v := carried(p); v != "" {
					bad = fmt.Sprintf("on a path back to the loop head %s advances by %v, which depends on %s — a value carried over from an earlier iteration", c.Var, p, v)
					break
				}
			}
			if bad != "" {
				r.Fail(VViolation, rule, dfi.Key, inst, w.Pos(l.Pos), bad+": elements whose size differs from the remembered one are read from the wrong offset")
			} else {
				r.OK(rule, dfi.Key, inst, w.Pos(l.Pos), "every advance is computed from the current element, constants or values fixed before the loop", true)
			}
		}
	}
}

// stepSpecRule: where the wire format fixes how far a list decoder advances per element independently of
// the element's own size function, the advance is compared with that specification. (Most list decoders
// advance by the size the decoded element reports; those are the extent/liststep rules.)
var specSteps = map[string]struct{ Step, Cite string }{
	"common.Hello.UnmarshalBinary": {"round8(val(new#.Length))", "OpenFlow 1.3.5 §7.5.1: hello elements are padded to 64-bit alignment, the next element starts at the next multiple of 8 after length bytes"},
}

var objNumRE = regexp.MustCompile(`new#\d+`)

func stepSpecRule(w *World, r *Report, rule string) {
	var keys []string
	for k := range specSteps {
		keys = append(keys, k)
	}
	sort.Strings(keys)
	for _, key := range keys {
		sp := specSteps[key]
		fi := w.Funcs[key]
		if fi == nil {
			r.Fail(VViolation, rule, key, "", "-", "the list decoder no longer exists (anchor of the rule cannot be resolved)")
			continue
		}
		fs := w.Interpret(fi, "decode")
		n := 0
		for _, l := range fs.Loops {
			for _, c := range l.Cursors {
				for _, p := range c.Paths {
					if p == nil || p.IsZero() {
						continue
					}
					n++
					got := objNumRE.ReplaceAllString(p.String(), "new#")
					inst := fmt.Sprintf("%s#%d", c.Var, n)
					if got == sp.Step {
						r.OK(rule, key, inst, w.Pos(l.Pos), "the cursor advances by "+got+" — "+sp.Cite, true)
					} else {
						r.Fail(VViolation, rule, key, inst, w.Pos(l.Pos), "the cursor advances by "+got+", specified "+sp.Step+" — "+sp.Cite)
					}
				}
			}
		}
		if n == 0 {
			r.Fail(VUndecided, rule, key, "", w.Pos(fi.Decl.Pos()), "no list cursor with a non-zero advance found in the decoder")
		}
	}
}
