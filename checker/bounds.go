package main

// B — guard prover (DESIGN §2.5). Facts are linear inequalities L <= R over
// size terms collected from dominating conditions; obligations are decided by
// the sign rule after subtracting at most three facts.

import (
	"go/ast"
	"go/token"
	"go/types"
)

type Fact struct {
	L, R *Term // L <= R
	Src  string
}

func (f Fact) equal(g Fact) bool { return f.L.Equal(g.L) && f.R.Equal(g.R) }
func (f Fact) String() string    { return f.L.String() + " <= " + f.R.String() }

// Need is one inequality A <= B that must hold at a site.
type Need struct {
	A, B *Term
	What string
}

type Site struct {
	Kind   string // index | slice | slicehi | put | get | order
	Buf    string // buffer name ("P" for the input)
	Origin string
	Needs  []Need
	Facts  []Fact
	Pos    token.Pos
	Text   string
	Fn     string
	Guard  string
	Expr   ast.Expr
}

func (in *Interp) addSite(s *Site) {
	for i := in; i != nil; i = i.parent {
		if i.parent == nil {
			i.Sites = append(i.Sites, s)
			return
		}
	}
}

// limit returns the exclusive upper bound for accesses through view v.
func (in *Interp) limit(st *State, v BufV) *Term {
	if v.Hi != nil {
		return v.Hi
	}
	if b := st.bufs[v.ID]; b != nil {
		return b.Len
	}
	return Opq("len(?)")
}

// site records the obligation for one access. off is the absolute start
// offset in the buffer, w the number of bytes needed (nil for a bare slice
// bound where off itself must be <= limit).
func (in *Interp) site(st *State, v BufV, kind string, off *Term, w *Term, e ast.Expr) {
	if in.noSites {
		return
	}
	b := st.bufs[v.ID]
	if b == nil {
		return
	}
	lim := in.limit(st, v)
	s := &Site{Kind: kind, Buf: in.bufName(st, v), Origin: b.Origin, Pos: e.Pos(), Fn: in.fi.Key, Guard: in.guard(), Expr: e}
	s.Text = in.render(nil, e)
	switch kind {
	case "index", "put", "get":
		s.Needs = append(s.Needs, Need{A: off.Add(w), B: lim, What: "end of access within buffer"})
		s.Needs = append(s.Needs, Need{A: Const(0), B: off, What: "offset non-negative"})
	case "slice":
		s.Needs = append(s.Needs, Need{A: off, B: lim, What: "slice start within buffer"})
		s.Needs = append(s.Needs, Need{A: Const(0), B: off, What: "slice start non-negative"})
	case "slicehi":
		// Go allows hi up to cap; len is used as the conservative bound
		blen := b.Len
		if v.Hi != nil {
			blen = v.Hi
		}
		s.Needs = append(s.Needs, Need{A: off, B: blen, What: "slice end within buffer"})
	}
	s.Facts = append([]Fact(nil), st.facts...)
	in.addSite(s)
}

func (in *Interp) sitePair(st *State, v BufV, lo, hi *Term, e ast.Expr) {
	if in.noSites {
		return
	}
	b := st.bufs[v.ID]
	if b == nil {
		return
	}
	s := &Site{Kind: "order", Buf: in.bufName(st, v), Origin: b.Origin, Pos: e.Pos(), Fn: in.fi.Key, Guard: in.guard(), Expr: e, Text: in.render(nil, e)}
	s.Needs = append(s.Needs, Need{A: lo, B: hi, What: "slice start <= end"})
	s.Facts = append([]Fact(nil), st.facts...)
	in.addSite(s)
}

// assume adds the facts implied by cond being true/false.
func (in *Interp) assume(st *State, cond ast.Expr, truth bool) {
	cond = unparen(cond)
	switch x := cond.(type) {
	case *ast.UnaryExpr:
		if x.Op == token.NOT {
			in.assume(st, x.X, !truth)
		}
		return
	case *ast.BinaryExpr:
		switch x.Op {
		case token.LAND:
			if truth {
				in.assume(st, x.X, true)
				in.assume(st, x.Y, true)
			}
			return
		case token.LOR:
			if !truth {
				in.assume(st, x.X, false)
				in.assume(st, x.Y, false)
			}
			return
		case token.LSS, token.LEQ, token.GTR, token.GEQ, token.EQL, token.NEQ:
			tx, ty := in.info.TypeOf(x.X), in.info.TypeOf(x.Y)
			if tx == nil || ty == nil {
				return
			}
			if !isIntLike(tx) || !isIntLike(ty) {
				in.assumeNil(st, x, truth)
				return
			}
			save := in.noSites
			in.noSites = true
			a, b := in.evalInt(st, x.X), in.evalInt(st, x.Y)
			in.noSites = save
			op := x.Op
			if !truth {
				switch op {
				case token.LSS:
					op = token.GEQ
				case token.LEQ:
					op = token.GTR
				case token.GTR:
					op = token.LEQ
				case token.GEQ:
					op = token.LSS
				case token.EQL:
					op = token.NEQ
				case token.NEQ:
					op = token.EQL
				}
			}
			src := in.render(nil, cond)
			add := func(l, r *Term) { st.facts = append(st.facts, Fact{L: l, R: r, Src: src}) }
			switch op {
			case token.LSS:
				add(a.AddC(1), b)
			case token.LEQ:
				add(a, b)
			case token.GTR:
				add(b.AddC(1), a)
			case token.GEQ:
				add(b, a)
			case token.EQL:
				add(a, b)
				add(b, a)
			}
		}
	}
}

func isIntLike(t types.Type) bool {
	b, ok := t.Underlying().(*types.Basic)
	return ok && b.Info()&types.IsInteger != 0
}

// assumeNil records x != nil / x == nil for object paths (used by the nil rules).
func (in *Interp) assumeNil(st *State, x *ast.BinaryExpr, truth bool) {
	if x.Op != token.EQL && x.Op != token.NEQ {
		return
	}
	var other ast.Expr
	if id, ok := unparen(x.Y).(*ast.Ident); ok && id.Name == "nil" {
		other = x.X
	} else if id, ok := unparen(x.X).(*ast.Ident); ok && id.Name == "nil" {
		other = x.Y
	}
	if other == nil {
		return
	}
	nonNil := (x.Op == token.NEQ) == truth
	if id, ok := unparen(other).(*ast.Ident); ok {
		o := in.obj(id)
		if mv, ok := st.vars[o].(MaybeV); ok && nonNil {
			st.vars[o] = mv.V
		}
		if nonNil {
			st.nonNil = append(st.nonNil, o)
		} else {
			st.isNil = append(st.isNil, o)
		}
	}
}

// Prove decides A <= B from the facts (sound, incomplete).
func Prove(a, b *Term, facts []Fact) (bool, []Fact) {
	d := b.Sub(a)
	if d.NonNeg() {
		return true, nil
	}
	// depth-limited search subtracting (R-L) >= 0 of facts
	var used []Fact
	var rec func(d *Term, depth int, start int) bool
	rec = func(d *Term, depth int, start int) bool {
		if d.NonNeg() {
			return true
		}
		if depth == 0 {
			return false
		}
		for i := 0; i < len(facts); i++ {
			f := facts[i]
			g := f.R.Sub(f.L)
			if !sharesAtom(d, g) {
				continue
			}
			nd := d.Sub(g)
			if termWeight(nd) > termWeight(d)+2 {
				continue
			}
			used = append(used, f)
			if rec(nd, depth-1, i+1) {
				return true
			}
			used = used[:len(used)-1]
		}
		return false
	}
	if rec(d, 3, 0) {
		return true, append([]Fact(nil), used...)
	}
	return false, nil
}

func sharesAtom(a, b *Term) bool {
	for k := range a.K {
		if _, ok := b.K[k]; ok {
			return true
		}
	}
	return false
}

func termWeight(t *Term) int { return len(t.K) }
