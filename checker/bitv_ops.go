package main

// T — bit-lane analysis (DESIGN §2.8) and the small integer algebra used by
// C16. A BV is the abstract value of an integer expression: a vector of bit
// sources (each bit is 0, 1, bit i of a named source, or unknown), optionally
// its value as a linear term (when no operation on the way can wrap), and
// optionally the closed forms "n ones starting at bit lo" / "2^n" that the
// range helpers build with non-constant shift counts. Nothing is executed and
// nothing is sampled: a verdict about a lane vector holds for every value of
// every source at once.

import (
	"fmt"
	"go/token"
	"strings"
)

type Bit struct {
	K   byte   // '0' '1' 's' (source bit) 'T' (unknown)
	Src string // source name for 's'
	I   int    // bit index inside the source
}

func (b Bit) String() string {
	switch b.K {
	case '0', '1':
		return string(b.K)
	case 's':
		return fmt.Sprintf("%s[%d]", b.Src, b.I)
	}
	return "?"
}

type MaskV struct{ Lo, N *Term } // N one-bits starting at bit Lo

type BV struct {
	W      int
	Signed bool
	Bits   []Bit  // len W, index 0 = least significant
	Lin    *Term  // the value as a mathematical integer, when known exactly
	Mask   *MaskV // closed form: N ones starting at Lo
	Pow    *Term  // closed form: 2^Pow
	IsBool bool
	Why    string // why information was lost (first reason)
}

func (v BV) lost(why string) BV {
	if v.Why == "" {
		v.Why = why
	}
	return v
}

func topBV(w int, signed bool, why string) BV {
	v := BV{W: w, Signed: signed, Bits: make([]Bit, w), Why: why}
	for i := range v.Bits {
		v.Bits[i] = Bit{K: 'T'}
	}
	return v
}

func constBV(c uint64, w int, signed bool) BV {
	v := BV{W: w, Signed: signed, Bits: make([]Bit, w)}
	for i := 0; i < w; i++ {
		if i < 64 && c>>uint(i)&1 == 1 {
			v.Bits[i] = Bit{K: '1'}
		} else {
			v.Bits[i] = Bit{K: '0'}
		}
	}
	if signed && w <= 64 && w > 0 && c>>uint(w-1)&1 == 1 {
		// negative constant
		var sv int64
		if w == 64 {
			sv = int64(c)
		} else {
			sv = int64(c) - (int64(1) << uint(w))
		}
		v.Lin = Const(sv)
	} else if c <= 1<<62 {
		v.Lin = Const(int64(c))
	}
	return v
}

// srcBV is a named source of w bits of which only the low decl bits can be set.
func srcBV(name string, w, decl int, signed bool) BV {
	v := BV{W: w, Signed: signed, Bits: make([]Bit, w), Lin: ValOf(name)}
	for i := 0; i < w; i++ {
		if i < decl {
			v.Bits[i] = Bit{K: 's', Src: name, I: i}
		} else {
			v.Bits[i] = Bit{K: '0'}
		}
	}
	return v
}

func (v BV) isConst() (uint64, bool) {
	var c uint64
	for i, b := range v.Bits {
		switch b.K {
		case '1':
			if i >= 64 {
				return 0, false
			}
			c |= 1 << uint(i)
		case '0':
		default:
			return 0, false
		}
	}
	return c, true
}

// topBit is the index of the highest bit that may be non-zero (-1: value is 0).
func (v BV) topBit() int {
	for i := len(v.Bits) - 1; i >= 0; i-- {
		if v.Bits[i].K != '0' {
			return i
		}
	}
	return -1
}

func (v BV) allKnown() bool {
	for _, b := range v.Bits {
		if b.K == 'T' {
			return false
		}
	}
	return true
}

func (v BV) String() string {
	if v.Mask != nil {
		return fmt.Sprintf("ones(n=%v)<<(%v)", v.Mask.N, v.Mask.Lo)
	}
	if v.Pow != nil {
		return fmt.Sprintf("2^(%v)", v.Pow)
	}
	if c, ok := v.isConst(); ok {
		return fmt.Sprintf("%#x", c)
	}
	// compress runs
	var parts []string
	i := len(v.Bits) - 1
	for i >= 0 {
		b := v.Bits[i]
		j := i
		switch b.K {
		case 's':
			for j-1 >= 0 && v.Bits[j-1].K == 's' && v.Bits[j-1].Src == b.Src && v.Bits[j-1].I == v.Bits[j].I-1 {
				j--
			}
			parts = append(parts, fmt.Sprintf("[%d..%d]=%s[%d..%d]", i, j, b.Src, b.I, v.Bits[j].I))
		default:
			for j-1 >= 0 && v.Bits[j-1].K == b.K {
				j--
			}
			if b.K != '0' {
				parts = append(parts, fmt.Sprintf("[%d..%d]=%s", i, j, b.String()))
			}
		}
		i = j - 1
	}
	s := strings.Join(parts, " ")
	if s == "" {
		s = "0"
	}
	if v.Lin != nil {
		s += " (= " + v.Lin.String() + ")"
	}
	return s
}

// ---------------------------------------------------------------- context

// bvCtx carries the facts (ranges of sources, path conditions) and the table
// of whole-value sources used to turn lanes back into terms.
type bvCtx struct {
	facts   []Fact
	srcBits map[string]int   // source name -> number of bits it can occupy
	srcTerm map[string]*Term // source name -> the term it denotes (default val(name))
}

func newBvCtx() *bvCtx { return &bvCtx{srcBits: map[string]int{}, srcTerm: map[string]*Term{}} }

func (c *bvCtx) clone() *bvCtx {
	n := newBvCtx()
	n.facts = append(n.facts, c.facts...)
	for k, v := range c.srcBits {
		n.srcBits[k] = v
	}
	for k, v := range c.srcTerm {
		n.srcTerm[k] = v
	}
	return n
}

// declare registers a source with its range [lo,hi] and returns its value.
func (c *bvCtx) declare(name string, w int, signed bool, lo, hi int64) BV {
	bits := 0
	for bits < 63 && hi >= int64(1)<<uint(bits) {
		bits++
	}
	if bits > w {
		bits = w
	}
	t := ValOf(name)
	c.facts = append(c.facts, Fact{L: Const(lo), R: t, Src: "range of " + name}, Fact{L: t, R: Const(hi), Src: "range of " + name})
	c.srcBits[name] = bits
	c.srcTerm[name] = t
	v := srcBV(name, w, bits, signed)
	if lo < 0 {
		for i := range v.Bits {
			v.Bits[i] = Bit{K: 'T'}
		}
	}
	return v
}

// derived registers a term with a proven range as a lane source.
func (c *bvCtx) derived(t *Term, w int, signed bool) (BV, bool) {
	if t.IsConst() {
		if t.C >= 0 {
			return constBV(uint64(t.C), w, signed), true
		}
		if signed {
			return constBV(uint64(t.C)&(^uint64(0)>>uint(64-w)), w, true), true
		}
		return BV{}, false
	}
	if ok, _ := Prove(Const(0), t, c.facts); !ok {
		return BV{}, false
	}
	bits := -1
	for m := 0; m <= w && m < 63; m++ {
		if ok, _ := Prove(t, Const(int64(1)<<uint(m)-1), c.facts); ok {
			bits = m
			break
		}
	}
	if bits < 0 {
		return BV{}, false
	}
	name := t.String()
	if a := t.SingleAtom(); a != nil && a.Kind == "val" {
		name = a.Path
	}
	if old, ok := c.srcBits[name]; !ok || bits < old {
		c.srcBits[name] = bits
	}
	c.srcTerm[name] = t
	v := srcBV(name, w, c.srcBits[name], signed)
	v.Lin = t
	return v, true
}

// linOf recovers the value of a lane vector as a term when the lanes are
// exactly the whole of one registered source (bit i at position i, zero above).
func (c *bvCtx) linOf(v BV) *Term {
	if v.Lin != nil {
		return v.Lin
	}
	if k, ok := v.isConst(); ok && k < 1<<62 {
		return Const(int64(k))
	}
	src := ""
	n := 0
	for i, b := range v.Bits {
		switch b.K {
		case 's':
			if b.I != i || (src != "" && b.Src != src) || i != n {
				return nil
			}
			src = b.Src
			n++
		case '0':
		default:
			return nil
		}
	}
	if src == "" {
		return nil
	}
	if bits, ok := c.srcBits[src]; ok && n >= bits {
		return c.srcTerm[src]
	}
	return nil
}

func (c *bvCtx) prove(a, b *Term) bool {
	ok, _ := Prove(a, b, c.facts)
	return ok
}

func (c *bvCtx) equal(a, b *Term) bool {
	if a == nil || b == nil {
		return false
	}
	return a.Equal(b) || (c.prove(a, b) && c.prove(b, a))
}

// ---------------------------------------------------------------- operations

func (c *bvCtx) fixLin(v BV) BV {
	if v.Lin == nil {
		v.Lin = c.linOf(v)
	}
	return v
}

// fits: the linear value t certainly lies in the range of a w-bit type.
func (c *bvCtx) fits(t *Term, w int, signed bool) bool {
	if t == nil {
		return false
	}
	if signed {
		if w >= 64 {
			return true // Go int arithmetic on offsets and lengths: assumed not to overflow 64 bits
		}
		return c.prove(Const(-(int64(1)<<uint(w-1))), t) && c.prove(t, Const(int64(1)<<uint(w-1)-1))
	}
	if !c.prove(Const(0), t) {
		return false
	}
	if w >= 63 {
		return true
	}
	return c.prove(t, Const(int64(1)<<uint(w)-1))
}

// fromLin rebuilds lanes from a linear value of known non-negative range.
func (c *bvCtx) fromLin(t *Term, w int, signed bool, why string) BV {
	if v, ok := c.derived(t, w, signed); ok {
		return v
	}
	v := topBV(w, signed, why)
	if c.fits(t, w, signed) {
		v.Lin = t
	}
	return v
}

func (c *bvCtx) bitwise(op token.Token, a, b BV) BV {
	w := a.W
	if b.W > w {
		w = b.W
	}
	r := BV{W: w, Signed: a.Signed, Bits: make([]Bit, w)}
	get := func(v BV, i int) Bit {
		if i < len(v.Bits) {
			return v.Bits[i]
		}
		return Bit{K: '0'}
	}
	same := func(x, y Bit) bool { return x.K == 's' && y.K == 's' && x.Src == y.Src && x.I == y.I }
	disjoint := true
	for i := 0; i < w; i++ {
		x, y := get(a, i), get(b, i)
		if x.K != '0' && y.K != '0' {
			disjoint = false
		}
		var o Bit
		switch op {
		case token.AND:
			switch {
			case x.K == '0' || y.K == '0':
				o = Bit{K: '0'}
			case x.K == '1':
				o = y
			case y.K == '1':
				o = x
			case same(x, y):
				o = x
			default:
				o = Bit{K: 'T'}
			}
		case token.OR:
			switch {
			case x.K == '1' || y.K == '1':
				o = Bit{K: '1'}
			case x.K == '0':
				o = y
			case y.K == '0':
				o = x
			case same(x, y):
				o = x
			default:
				o = Bit{K: 'T'}
			}
		case token.XOR:
			switch {
			case x.K == '0':
				o = y
			case y.K == '0':
				o = x
			case x.K == '1' && y.K == '1', same(x, y):
				o = Bit{K: '0'}
			default:
				o = Bit{K: 'T'}
			}
		case token.AND_NOT:
			switch {
			case x.K == '0' || y.K == '1' || same(x, y):
				o = Bit{K: '0'}
			case y.K == '0':
				o = x
			default:
				o = Bit{K: 'T'}
			}
		}
		r.Bits[i] = o
	}
	if (op == token.OR || op == token.XOR) && disjoint {
		la, lb := c.linOf(a), c.linOf(b)
		if la != nil && lb != nil {
			r.Lin = la.Add(lb)
		}
	}
	if !r.allKnown() {
		r = r.lost("bitwise " + op.String() + " of overlapping lanes: " + a.String() + " " + op.String() + " " + b.String())
		if a.Why != "" {
			r.Why = a.Why
		} else if b.Why != "" {
			r.Why = b.Why
		}
	}
	return c.fixLin(r)
}

func (c *bvCtx) not(a BV) BV {
	r := BV{W: a.W, Signed: a.Signed, Bits: make([]Bit, a.W)}
	for i, b := range a.Bits {
		switch b.K {
		case '0':
			r.Bits[i] = Bit{K: '1'}
		case '1':
			r.Bits[i] = Bit{K: '0'}
		default:
			r.Bits[i] = Bit{K: 'T'}
			r = r.lost("complement of a non-constant value")
		}
	}
	return c.fixLin(r)
}

func (c *bvCtx) shlConst(a BV, k int) BV {
	r := BV{W: a.W, Signed: a.Signed, Bits: make([]Bit, a.W), Why: a.Why}
	for i := range r.Bits {
		if i-k >= 0 && i-k < len(a.Bits) {
			r.Bits[i] = a.Bits[i-k]
		} else {
			r.Bits[i] = Bit{K: '0'}
		}
	}
	if la := c.linOf(a); la != nil && k < 62 && a.topBit()+k < a.W && a.allKnown() {
		r.Lin = la.Scale(int64(1) << uint(k))
	} else if la != nil && k < 62 && c.fits(la.Scale(int64(1)<<uint(k)), a.W, a.Signed) {
		r.Lin = la.Scale(int64(1) << uint(k))
	}
	return r
}

func (c *bvCtx) shrConst(a BV, k int) BV {
	r := BV{W: a.W, Signed: a.Signed, Bits: make([]Bit, a.W), Why: a.Why}
	for i := range r.Bits {
		if i+k < len(a.Bits) {
			r.Bits[i] = a.Bits[i+k]
		} else if a.Signed && len(a.Bits) > 0 && a.Bits[len(a.Bits)-1].K != '0' {
			r.Bits[i] = Bit{K: 'T'}
			r = r.lost("arithmetic right shift of a possibly negative value")
		} else {
			r.Bits[i] = Bit{K: '0'}
		}
	}
	if k == 0 {
		r.Lin = a.Lin
	}
	return c.fixLin(r)
}

func isAllOnes(v BV) bool {
	if v.Signed {
		return false
	}
	for _, b := range v.Bits {
		if b.K != '1' {
			return false
		}
	}
	return len(v.Bits) > 0
}

// shift by a non-constant count: only the closed forms the range helpers use.
func (c *bvCtx) shiftSym(op token.Token, a, k BV) BV {
	if a.Why != "" && a.Mask == nil && a.Pow == nil && !a.allKnown() {
		return topBV(a.W, a.Signed, a.Why) // keep the first reason information was lost
	}
	kl := c.linOf(k)
	if kl == nil {
		why := "shift count is not a known linear value"
		if k.Why != "" {
			why += " (" + k.Why + ")"
		}
		return topBV(a.W, a.Signed, why)
	}
	if !c.prove(Const(0), kl) {
		return topBV(a.W, a.Signed, fmt.Sprintf("shift count %v not provably >= 0", kl))
	}
	W := Const(int64(a.W))
	switch {
	case op == token.SHR && isAllOnes(a):
		if !c.prove(kl, W) {
			return topBV(a.W, a.Signed, fmt.Sprintf("shift count %v not provably <= %d", kl, a.W))
		}
		r := topBV(a.W, a.Signed, "")
		r.Mask = &MaskV{Lo: Const(0), N: W.Sub(kl)}
		return r
	case op == token.SHL && a.Mask != nil && a.Mask.Lo.IsZero():
		if !c.prove(kl.Add(a.Mask.N), W) {
			return topBV(a.W, a.Signed, fmt.Sprintf("mask of %v ones shifted left by %v may lose bits beyond bit %d", a.Mask.N, kl, a.W-1))
		}
		r := topBV(a.W, a.Signed, "")
		r.Mask = &MaskV{Lo: kl, N: a.Mask.N}
		return r
	case op == token.SHL:
		if cv, ok := a.isConst(); ok && cv == 1 {
			if !c.prove(kl, W.AddC(-1)) {
				return topBV(a.W, a.Signed, fmt.Sprintf("1 << %v may shift the bit out of the %d-bit word", kl, a.W))
			}
			r := topBV(a.W, a.Signed, "")
			r.Pow = kl
			return r
		}
	}
	return topBV(a.W, a.Signed, "shift by a non-constant count outside the recognised closed forms")
}

func (c *bvCtx) addsub(op token.Token, a, b BV) BV {
	w := a.W
	// 2^n - 1  =  n ones
	if op == token.SUB && a.Pow != nil {
		if cv, ok := b.isConst(); ok && cv == 1 {
			r := topBV(w, a.Signed, "")
			r.Mask = &MaskV{Lo: Const(0), N: a.Pow}
			return r
		}
	}
	la, lb := c.linOf(a), c.linOf(b)
	if op == token.ADD {
		// no carry possible when the lanes are disjoint: same as OR
		disjoint := true
		for i := 0; i < w && i < len(a.Bits) && i < len(b.Bits); i++ {
			if a.Bits[i].K != '0' && b.Bits[i].K != '0' {
				disjoint = false
				break
			}
		}
		if disjoint && a.allKnown() && b.allKnown() {
			return c.bitwise(token.OR, a, b)
		}
	}
	if la == nil || lb == nil {
		why := "arithmetic on a value that is not a known linear term"
		if a.Why != "" {
			why = a.Why
		} else if b.Why != "" {
			why = b.Why
		}
		return topBV(w, a.Signed, why)
	}
	var t *Term
	if op == token.ADD {
		t = la.Add(lb)
	} else {
		t = la.Sub(lb)
	}
	if !c.fits(t, w, a.Signed) {
		return topBV(w, a.Signed, fmt.Sprintf("%v may wrap in %s", t, typeName(w, a.Signed)))
	}
	return c.fromLin(t, w, a.Signed, "")
}

func typeName(w int, signed bool) string {
	if signed {
		return fmt.Sprintf("int%d", w)
	}
	return fmt.Sprintf("uint%d", w)
}

func (c *bvCtx) convert(a BV, w int, signed bool) BV {
	la := c.linOf(a)
	if a.Signed && !signed {
		// a negative value wraps when converted to an unsigned type
		neg := false
		if la != nil {
			neg = !c.prove(Const(0), la)
		} else if len(a.Bits) > 0 && a.Bits[len(a.Bits)-1].K != '0' {
			neg = true
		}
		if neg {
			why := "possibly negative value converted to " + typeName(w, signed)
			if la != nil {
				why = fmt.Sprintf("%v not provably >= 0 when converted to %s", la, typeName(w, signed))
			}
			if a.Why != "" {
				why = a.Why
			}
			return topBV(w, signed, why)
		}
	}
	r := BV{W: w, Signed: signed, Bits: make([]Bit, w), Why: a.Why, Mask: a.Mask, Pow: a.Pow, IsBool: a.IsBool}
	for i := range r.Bits {
		if i < len(a.Bits) {
			r.Bits[i] = a.Bits[i]
		} else if a.Signed && len(a.Bits) > 0 && a.Bits[len(a.Bits)-1].K != '0' && (la == nil || !c.prove(Const(0), la)) {
			r.Bits[i] = Bit{K: 'T'}
		} else {
			r.Bits[i] = Bit{K: '0'}
		}
	}
	if la != nil && c.fits(la, w, signed) {
		r.Lin = la
		if !r.allKnown() || (a.Signed && !a.allKnown()) {
			if v, ok := c.derived(la, w, signed); ok {
				v.Mask, v.Pow = a.Mask, a.Pow
				return v
			}
		}
	} else if la != nil && w < a.W {
		// truncation: lanes are kept, the linear value is not
		r.Lin = nil
	}
	if a.Mask != nil && w < a.W {
		r.Mask = nil
	}
	return c.fixLin(r)
}

// lowerBound: a constant c with c <= t under the context's facts (the term's own sign rules first).
func (c *bvCtx) lowerBound(t *Term) (int64, bool) {
	if t == nil {
		return 0, false
	}
	if t.IsConst() {
		return t.C, true
	}
	if lb, ok := t.LowerBound(); ok {
		return lb, true
	}
	if c.prove(Const(t.C), t) {
		return t.C, true
	}
	return 0, false
}
