package main

// C10 — inbound stream (DESIGN §3 C10). Only necessary structural conditions
// are decided; everything that quantifies over schedules or read partitions as
// such is not decidable by static analysis and is declared so.

import (
	"fmt"
	"go/ast"
	"go/constant"
	"go/token"
	"go/types"
	"strings"

	"golang.org/x/tools/go/types/typeutil"
)

func init() {
	register(&propCheck{
		ID:      "C10",
		Run:     runC10,
		NeedSSA: true,
		Level:   "Static analysis (role identification on the typed syntax + path enumeration on the control-flow graphs of the reader and parser goroutines + module-wide who-may-send/receive rules). Decides NECESSARY structural conditions of the property, not the property: carried — the four pieces of de-framing state (prefix count, prefix buffer, remaining-bytes counter, current pool buffer; identified by role, not by name) are declared outside the loop that calls conn.Read, so a frame split across reads is continued, not restarted; complete — the prefix buffer has constant length P, every comparison of the prefix count uses P, the remaining counter is the big-endian 16-bit value at offset 2 of the prefix buffer minus P, and the hand-off to the full pool is enclosed in the test 'remaining == 0'; handoff/inbound — on every path of the byte loop, after the buffer is sent to the full pool it is not used until it is replaced by one received from the empty pool, and the prefix count is re-armed; handoff/parse — on every path of one parser iteration that took a buffer from the full pool there is exactly one parse of its bytes, one send on Inbound, one Reset and one send of that buffer to the empty pool, in this order, and no use after it; errpath — every path leaving the reader either publishes nothing (connection closed by the local side) or sends exactly once on Error and then triggers shutdown, never handing the partial buffer over, and nothing else in the module sends on Error; roles — the only sender on the full pool is the reader, the only receiver the parser, the only sender on Inbound the parser, the only receiver of the empty pool the reader, conn.Read has one call site, and the reader is started exactly once per stream. Together with C12 (messages own their memory) these are what the recycling scheme relies on. NOT decided (no static argument in reach): absence of loss, duplication or merging under all interleavings of the 27 goroutines and all partitions of the byte stream, delivery order, behaviour after a failure at an arbitrary byte, liveness under a slow consumer. Also decided: inframe/<site> (C08's bounds obligations) — no packet-header decoder the parser reaches indexes or re-slices its input beyond its length; behind a frame the recycled pool buffer holds earlier frames.",
		Assumptions: []string{
			"roles are identified structurally: the buffer sent on pool.Full, the slice indexed by the prefix count, the variable assigned from the 16-bit length read",
			"C12 holds (parsed messages do not alias the pool buffer)",
		},
	})
}

func isSendTo(info *types.Info, n ast.Node, field *types.Var) (*ast.SendStmt, bool) {
	s, ok := n.(*ast.SendStmt)
	if !ok || fieldOf(info, s.Chan) != field {
		return nil, false
	}
	return s, true
}

func usesObj(info *types.Info, n ast.Node, o types.Object) bool {
	found := false
	ast.Inspect(n, func(m ast.Node) bool {
		if id, ok := m.(*ast.Ident); ok && info.Uses[id] == o {
			found = true
		}
		return true
	})
	return found
}

func constIntOf(info *types.Info, e ast.Expr) (int64, bool) {
	if tv, ok := info.Types[e]; ok && tv.Value != nil && tv.Value.Kind() == constant.Int {
		return constant.Int64Val(tv.Value)
	}
	return 0, false
}

func runC10(w *World, r *Report) {
	r.Rule("shadow", "no := in an inner scope re-declares a same-typed variable of the function that is read afterwards (or a named result): the value computed there would be lost", 1)
	shadowRule(w, r, "shadow", func(fi *FuncInfo) bool {
		return fi.Pkg.Types.Name() == "util" || fi.Pkg.Types.Name() == "openflow13" || fi.Pkg.Types.Name() == "common"
	})
	r.Rule("typednil-var", "a pointer result that can be a bare nil is not assigned to an interface-typed variable (a typed nil passes == nil tests the wrong way)", 1)
	typedNilVarRule(w, r, "typednil-var", func(fi *FuncInfo) bool {
		return fi.Pkg.Types.Name() == "openflow13" || fi.Pkg.Types.Name() == "common" || fi.Pkg.Types.Name() == "util"
	})
	r.Rule("alive", "the stream goroutines cannot panic on a failed call's nil result or on a short byte slice handed to a helper", 2)
	streamAliveRule(w, r, "alive")
	r.Rule("stateless", "the stream keeps no package-level state shared between connections (a pool, a cache): frames of one connection are not taken by the parsers of another", 8)
	importStateless(w, r, "stateless")
	r.Rule("carried", "de-framing state is declared outside the read loop", 4)
	r.Rule("complete", "hand-off only when the remaining-bytes counter, defined from the length prefix, reaches zero", 4)
	r.Rule("handoff", "pool buffers are not touched between hand-off and re-acquisition; reset and returned exactly once", 2)
	r.Rule("errpath", "a read failure is published once and never hands over a partial frame", 1)
	r.Rule("owns-memory", "nothing the parser returns aliases the pool buffer (the C12 may-alias rule, re-decided here)", 100)
	r.Rule("roles", "one reader, one kind of parser, fixed senders/receivers of the pool and Inbound channels", 7)
	r.Rule("reject", "the parser entry point refuses a frame only for structural reasons (short input, failed child, unknown code) or reviewed rejections by value", 1)
	{
		r2 := NewReport(r.Prop, r.Tier)
		rejectRule(w, r2, "reject", func(pkg string) bool { return pkg == "openflow13" })
		for _, o := range r2.Obs {
			if o.Subject == "openflow13.Parse" {
				r.Add(o)
			}
		}
	}
	r.Rule("pool-disjoint", "every buffer put into the pool has backing storage of its own", 1)
	r.Rule("inframe", "no packet-header decoder the parser reaches indexes or re-slices its input beyond its length (the C08 bounds rule): behind a frame, the pooled buffer holds earlier frames", 150)
	so, miss := w.streamObjs()
	if miss != "" {
		r.Fail(VViolation, "roles", "util.MessageStream", "", "-", miss)
		return
	}
	info := so.info
	in := so.inbound
	ipos := w.Pos(in.Decl.Pos())
	// the de-framer may be split into steps: helper functions and methods the reader calls (also methods of
	// a struct that holds the de-framing state) are read together with the reader's own body
	bodies := []*ast.BlockStmt{in.Decl.Body}
	{
		seen := map[*FuncInfo]bool{in: true, so.parse: true}
		for i := 0; i < len(bodies) && i < 16; i++ {
			ast.Inspect(bodies[i], func(n ast.Node) bool {
				switch x := n.(type) {
				case *ast.GoStmt:
					return false
				case *ast.CallExpr:
					if fn, ok := typeutil.Callee(info, x).(*types.Func); ok {
						if hf := w.FuncOf(fn); hf != nil && !seen[hf] && hf.Pkg == in.Pkg && hf.Decl.Body != nil {
							seen[hf] = true
							bodies = append(bodies, hf.Decl.Body)
						}
					}
				}
				return true
			})
		}
	}
	inspectAll := func(f func(ast.Node) bool) {
		for _, b := range bodies {
			ast.Inspect(b, f)
		}
	}
	// a piece of state is a local variable of the reader or a field of a state struct of its own
	streamFields := map[types.Object]bool{}
	for _, f := range []*types.Var{so.conn, so.poolFull, so.poolEmpty, so.inboundF, so.errorF, so.shutdownF, so.outboundF} {
		if f != nil {
			streamFields[f] = true
		}
	}
	cellObj := func(e ast.Expr) types.Object {
		if o := identObj(info, e); o != nil {
			return o
		}
		if se, ok := unparen(e).(*ast.SelectorExpr); ok {
			if sel := info.Selections[se]; sel != nil && sel.Kind() == types.FieldVal {
				if fv, ok := sel.Obj().(*types.Var); ok && !streamFields[fv] {
					if _, isChan := fv.Type().Underlying().(*types.Chan); !isChan {
						return fv
					}
				}
			}
		}
		return nil
	}

	// ---------------------------------------------------------------- roles of the locals of inbound
	var readCall *ast.CallExpr
	var readLoop ast.Stmt // innermost loop containing the Read call
	var loops []ast.Stmt
	ast.Inspect(in.Decl.Body, func(n ast.Node) bool {
		switch x := n.(type) {
		case *ast.ForStmt, *ast.RangeStmt:
			loops = append(loops, x.(ast.Stmt))
		case *ast.CallExpr:
			if se, ok := unparen(x.Fun).(*ast.SelectorExpr); ok && se.Sel.Name == "Read" && fieldOf(info, se.X) == so.conn {
				readCall = x
			}
		}
		return true
	})
	if readCall == nil {
		r.Fail(VViolation, "carried", in.Key, "", ipos, "the reader no longer calls Read on the stream's connection (anchor cannot be resolved)")
		return
	}
	for _, l := range loops {
		if l.Pos() <= readCall.Pos() && readCall.End() <= l.End() {
			if readLoop == nil || (readLoop.Pos() <= l.Pos() && l.End() <= readLoop.End()) {
				readLoop = l
			}
		}
	}
	if readLoop == nil {
		r.Fail(VViolation, "carried", in.Key, "", ipos, "conn.Read is not called in a loop")
		return
	}
	var bufObj, hdrBufObj, hdrObj, remObj types.Object
	var fullSend *ast.SendStmt
	var remAssign *ast.AssignStmt
	inspectAll(func(n ast.Node) bool {
		switch x := n.(type) {
		case *ast.SendStmt:
			if fieldOf(info, x.Chan) == so.poolFull {
				fullSend = x
				bufObj = cellObj(x.Value)
			}
		case *ast.AssignStmt:
			// hdrBuf[hdr] = ...
			if len(x.Lhs) == 1 {
				if ix, ok := unparen(x.Lhs[0]).(*ast.IndexExpr); ok && isByteSliceOrArray(info.TypeOf(ix.X)) {
					if o, i := cellObj(ix.X), cellObj(ix.Index); o != nil && i != nil {
						// the prefix buffer is the one later read with a 16-bit big-endian read
						hdrBufObjCand, hdrObjCand := o, i
						inspectAll(func(m ast.Node) bool {
							if e, ok := m.(ast.Expr); ok {
								if _, isCall := e.(*ast.CallExpr); !isCall {
									if _, isBin := e.(*ast.BinaryExpr); !isBin {
										return true
									}
								}
								if b, _, _, wd, _, ok := be16Read(info, e); ok && wd == 2 && usesObj(info, b, hdrBufObjCand) {
									hdrBufObj, hdrObj = hdrBufObjCand, hdrObjCand
								}
							}
							return true
						})
					}
				}
				// rem = int(binary.BigEndian.Uint16(hdrBuf[2:])) - 4
				if o := cellObj(x.Lhs[0]); o != nil && len(x.Rhs) == 1 {
					if _, _, _, _, _, has16 := be16Read(info, singleReturnOf(w, info, x.Rhs[0])); has16 {
						remObj, remAssign = o, x
					}
				}
			}
		}
		return true
	})
	roles := []struct {
		name string
		o    types.Object
	}{{"current-buffer", bufObj}, {"prefix-buffer", hdrBufObj}, {"prefix-count", hdrObj}, {"remaining-counter", remObj}}
	for _, rl := range roles {
		if rl.o == nil {
			r.Fail(VUndecided, "carried", in.Key, rl.name, ipos, "cannot identify the "+rl.name+" of the de-framer by its role (the reader's shape is outside what the rule knows)")
		}
	}
	for _, rl := range roles {
		if rl.o == nil {
			return
		}
	}

	// ---------------------------------------------------------------- carried
	var loopBody *ast.BlockStmt
	switch l := readLoop.(type) {
	case *ast.ForStmt:
		loopBody = l.Body
	case *ast.RangeStmt:
		loopBody = l.Body
	}
	// a state struct: the variable of the reader that holds it stands for its fields
	holderOf := func(o types.Object) types.Object {
		fv, ok := o.(*types.Var)
		if !ok || !fv.IsField() {
			return o
		}
		var holder types.Object
		ast.Inspect(in.Decl.Body, func(n ast.Node) bool {
			id, ok := n.(*ast.Ident)
			if !ok || holder != nil {
				return true
			}
			lo, isVar := info.ObjectOf(id).(*types.Var)
			if !isVar || lo.IsField() {
				return true
			}
			if st := structOf(lo.Type()); st != nil {
				for i := 0; i < st.NumFields(); i++ {
					if st.Field(i) == fv {
						holder = lo
					}
				}
			}
			return true
		})
		if holder == nil {
			return o
		}
		return holder
	}
	for _, rl := range roles {
		rl.o = holderOf(rl.o)
		dp := rl.o.Pos()
		if loopBody.Pos() <= dp && dp < loopBody.End() {
			r.Fail(VViolation, "carried", in.Key, rl.name, w.Pos(dp), fmt.Sprintf("the %s (%s) is declared inside the loop that calls conn.Read: it is re-initialised on every read, so a frame split across two reads at this point is lost or mis-framed", rl.name, rl.o.Name()))
			continue
		}
		// not re-initialised unconditionally at the top level of the loop body either
		reinit := false
		for _, st := range loopBody.List {
			if as, ok := st.(*ast.AssignStmt); ok {
				for _, l := range as.Lhs {
					if cellObj(l) == rl.o {
						reinit = true
					}
				}
			}
		}
		if reinit {
			r.Fail(VViolation, "carried", in.Key, rl.name, w.Pos(loopBody.Pos()), fmt.Sprintf("the %s (%s) is reassigned unconditionally on every read", rl.name, rl.o.Name()))
			continue
		}
		r.OK("carried", in.Key, rl.name, w.Pos(dp), rl.o.Name()+" is declared before the read loop and not reset per read", true)
	}

	// ---------------------------------------------------------------- complete
	// (a) constant length P of the prefix buffer
	P := int64(-1)
	inspectAll(func(n ast.Node) bool {
		switch x := n.(type) {
		case *ast.AssignStmt:
			for i, l := range x.Lhs {
				if cellObj(l) == hdrBufObj && i < len(x.Rhs) {
					if c, ok := unparen(x.Rhs[i]).(*ast.CallExpr); ok {
						if id, ok := c.Fun.(*ast.Ident); ok && id.Name == "make" && len(c.Args) >= 2 {
							if v, ok := constIntOf(info, c.Args[1]); ok {
								P = v
							}
						}
					}
				}
			}
		case *ast.ValueSpec:
			for _, nm := range x.Names {
				if info.Defs[nm] == hdrBufObj {
					if n, ok := isByteArray(hdrBufObj.Type()); ok {
						P = n
					}
				}
			}
		case *ast.KeyValueExpr:
			// a field of the state struct set in its literal: hdrBuf: make([]byte, 4)
			if id, ok := x.Key.(*ast.Ident); ok && info.ObjectOf(id) == hdrBufObj {
				if c, ok := unparen(x.Value).(*ast.CallExpr); ok {
					if mk, ok := c.Fun.(*ast.Ident); ok && mk.Name == "make" && len(c.Args) >= 2 {
						if v, ok := constIntOf(info, c.Args[1]); ok {
							P = v
						}
					}
				}
			}
		}
		return true
	})
	if P < 0 {
		if n, ok := isByteArray(hdrBufObj.Type()); ok {
			P = n // an array-typed field
		}
	}
	if P < 0 {
		r.Fail(VUndecided, "complete", in.Key, "prefix-length", w.Pos(hdrBufObj.Pos()), "the prefix buffer's length is not a constant")
	} else {
		r.OK("complete", in.Key, "prefix-length", w.Pos(hdrBufObj.Pos()), fmt.Sprintf("prefix buffer of constant length %d", P), true)
	}
	// (b) comparisons of the prefix count with constants use P
	nCmp := 0
	okCmp := true
	inspectAll(func(n ast.Node) bool {
		be, ok := n.(*ast.BinaryExpr)
		if !ok {
			return true
		}
		switch be.Op {
		case token.LSS, token.LEQ, token.GTR, token.GEQ, token.EQL, token.NEQ:
		default:
			return true
		}
		var other ast.Expr
		if cellObj(be.X) == hdrObj {
			other = be.Y
		} else if cellObj(be.Y) == hdrObj {
			other = be.X
		}
		if other == nil {
			return true
		}
		nCmp++
		v, isC := constIntOf(info, other)
		strict := be.Op == token.LSS || be.Op == token.GEQ
		if cellObj(be.Y) == hdrObj {
			strict = be.Op == token.GTR || be.Op == token.LEQ
		}
		// `count == P` / `count != P` is the same test as `count >= P` / `count < P` for a count that grows by
		// one from below P
		if isC && v == P && (be.Op == token.EQL || be.Op == token.NEQ) {
			return true
		}
		if !isC || !strict || v != P {
			okCmp = false
			r.Fail(VViolation, "complete", in.Key, "prefix-threshold", w.Pos(be.Pos()), fmt.Sprintf("the prefix count is compared by %q, not by '< %d' / '>= %d' (the prefix buffer's length): the length field is read before the prefix is complete, or bytes are written beyond the prefix buffer", types.ExprString(be), P, P))
		}
		return true
	})
	if okCmp && nCmp > 0 {
		r.OK("complete", in.Key, "prefix-threshold", ipos, fmt.Sprintf("%d comparisons of the prefix count, all against the prefix length %d", nCmp, P), true)
	} else if nCmp == 0 {
		r.Fail(VUndecided, "complete", in.Key, "prefix-threshold", ipos, "the prefix count is never compared with a bound")
	}
	// (c) remaining = int(BE16(prefix[2:])) - P
	okRem := false
	remDiag := "the remaining-bytes counter is not defined as the big-endian 16-bit value at offset 2 of the prefix buffer minus the prefix length"
	if be, ok := unparen(singleReturnOf(w, info, remAssign.Rhs[0])).(*ast.BinaryExpr); ok && be.Op == token.SUB {
		if k, isC := constIntOf(info, be.Y); isC {
			if rb, lo, order, _, name, found := be16Read(info, be.X); found {
				switch {
				case name != "Uint16":
					remDiag = "the length field is read as " + name + ", not as a 16-bit value"
				case !strings.Contains(order, "BigEndian"):
					remDiag = "the length field is read in " + order + " byte order, not big-endian"
				case cellObj(rb) != hdrBufObj || lo != 2:
					remDiag = fmt.Sprintf("the length field is read from offset %d of %s, not from offset 2 of the prefix buffer", lo, types.ExprString(rb))
				case k != P:
					remDiag = fmt.Sprintf("the remaining counter subtracts %d, but %d prefix bytes were already consumed", k, P)
				default:
					okRem = true
				}
			}
		}
	}
	if okRem {
		r.OK("complete", in.Key, "remaining", w.Pos(remAssign.Pos()), fmt.Sprintf("remaining = BE16(prefix[2:]) - %d", P), true)
	} else {
		r.Fail(VViolation, "complete", in.Key, "remaining", w.Pos(remAssign.Pos()), remDiag)
	}
	// every send to the full pool is a hand-off and needs the guard
	var allSends []*ast.SendStmt
	inspectAll(func(n ast.Node) bool {
		if x, ok := n.(*ast.SendStmt); ok && fieldOf(info, x.Chan) == so.poolFull {
			allSends = append(allSends, x)
		}
		return true
	})
	for si, fullSend := range allSends {
		hgInst := "handoff-guard"
		if si > 0 {
			hgInst = fmt.Sprintf("handoff-guard#%d", si+1)
		}
		// a send inside a local closure that is only ever called happens where the closure is called: the guard
		// must enclose every call
		anchors := []ast.Node{fullSend}
		for _, b := range bodies {
			ast.Inspect(b, func(n ast.Node) bool {
				if fl, ok := n.(*ast.FuncLit); ok && fl.Body.Pos() <= fullSend.Pos() && fullSend.End() <= fl.Body.End() {
					if sites := closureCallSites(info, b, fl); len(sites) > 0 {
						anchors = anchors[:0]
						for _, s := range sites {
							anchors = append(anchors, s)
						}
					}
					return false
				}
				return true
			})
		}
		allEnclosed := true
		for _, anchor := range anchors {
			// (d) the hand-off is enclosed in `remaining == 0`
			enclosed := false
			inspectAll(func(n ast.Node) bool {
				is, ok := n.(*ast.IfStmt)
				if !ok || !(is.Body.Pos() <= anchor.Pos() && anchor.End() <= is.Body.End()) {
					return true
				}
				if be, ok := unparen(is.Cond).(*ast.BinaryExpr); ok && (be.Op == token.EQL || be.Op == token.LEQ) {
					if cellObj(be.X) == remObj {
						if v, isC := constIntOf(info, be.Y); isC && v == 0 {
							enclosed = true
						}
					}
				}
				return true
			})
			if !enclosed {
				// the inverted form: `if remaining != 0 { break / continue / return }` earlier in the block of the send
				inspectAll(func(n ast.Node) bool {
					var list []ast.Stmt
					switch b := n.(type) {
					case *ast.BlockStmt:
						list = b.List
					case *ast.CaseClause:
						list = b.Body
					default:
						return true
					}
					idx := -1
					for i, st := range list {
						if st.Pos() <= anchor.Pos() && anchor.End() <= st.End() {
							if st == anchor {
								idx = i
							}
						}
					}
					for i := 0; i < idx; i++ {
						is, ok := list[i].(*ast.IfStmt)
						if !ok || is.Else != nil || len(is.Body.List) == 0 {
							continue
						}
						be, ok := unparen(is.Cond).(*ast.BinaryExpr)
						if !ok || cellObj(be.X) != remObj {
							continue
						}
						v, isC := constIntOf(info, be.Y)
						if !isC || v != 0 || !(be.Op == token.NEQ || be.Op == token.GTR) {
							continue
						}
						switch is.Body.List[len(is.Body.List)-1].(type) {
						case *ast.BranchStmt, *ast.ReturnStmt:
							enclosed = true
						}
					}
					return true
				})
			}
			if !enclosed {
				allEnclosed = false
			}
		}
		if enclosed := allEnclosed; enclosed {
			r.OK("complete", in.Key, hgInst, w.Pos(fullSend.Pos()), "the send to the full pool is enclosed in the test 'remaining == 0'", true)
		} else {
			r.Fail(VViolation, "complete", in.Key, hgInst, w.Pos(fullSend.Pos()), "the buffer is handed to the parsers without the test that the remaining-bytes counter reached zero: incomplete or over-long frames are delivered")
		}
	}

	// ---------------------------------------------------------------- handoff/inbound (typestate on the CFG)
	g := w.funcCFG(info, in.Decl.Body)
	var classifyIn func(n ast.Node, emit func(cfgEvent))
	inlineDepth := 0
	classifyIn = func(n ast.Node, emit func(cfgEvent)) {
		// a call of a helper of the stream: its channel operations happen here, in the helper's statement order
		if es, ok := n.(*ast.ExprStmt); ok && inlineDepth < 4 {
			if c, ok := es.X.(*ast.CallExpr); ok {
				if fn, ok := typeutil.Callee(info, c).(*types.Func); ok {
					if hf := w.FuncOf(fn); hf != nil && hf != in && hf.Pkg == in.Pkg && hf != so.parse && hf.Decl.Body != nil {
						inlineDepth++
						var walk func(list []ast.Stmt)
						walk = func(list []ast.Stmt) {
							for _, st := range list {
								switch b := st.(type) {
								case *ast.BlockStmt:
									walk(b.List)
								case *ast.IfStmt:
									walk(b.Body.List)
									if eb, ok := b.Else.(*ast.BlockStmt); ok {
										walk(eb.List)
									} else if ei, ok := b.Else.(*ast.IfStmt); ok {
										walk([]ast.Stmt{ei})
									}
								case *ast.ForStmt:
									walk(b.Body.List)
								case *ast.RangeStmt:
									walk(b.Body.List)
								default:
									classifyIn(st, emit)
								}
							}
						}
						walk(hf.Decl.Body.List)
						inlineDepth--
						return
					}
				}
			}
		}
		// a call of a local closure (no arguments: it works on the variables it captures) runs its body here
		if es, ok := n.(*ast.ExprStmt); ok && inlineDepth < 4 {
			if c, ok := es.X.(*ast.CallExpr); ok && len(c.Args) == 0 {
				if lit := localClosure(info, in.Decl.Body, c.Fun); lit != nil {
					inlineDepth++
					var walk func(list []ast.Stmt)
					walk = func(list []ast.Stmt) {
						for _, st := range list {
							switch b := st.(type) {
							case *ast.BlockStmt:
								walk(b.List)
							case *ast.IfStmt:
								walk(b.Body.List)
								if eb, ok := b.Else.(*ast.BlockStmt); ok {
									walk(eb.List)
								} else if ei, ok := b.Else.(*ast.IfStmt); ok {
									walk([]ast.Stmt{ei})
								}
							case *ast.ForStmt:
								walk(b.Body.List)
							case *ast.RangeStmt:
								walk(b.Body.List)
							default:
								classifyIn(st, emit)
							}
						}
					}
					walk(lit.Body.List)
					inlineDepth--
					return
				}
			}
		}
		// the statement that binds a local closure does nothing by itself
		if as, ok := n.(*ast.AssignStmt); ok && len(as.Lhs) == 1 && len(as.Rhs) == 1 {
			if fl, ok := unparen(as.Rhs[0]).(*ast.FuncLit); ok && localClosure(info, in.Decl.Body, as.Lhs[0]) == fl {
				return
			}
		}
		if s, ok := isSendTo(info, n, so.poolFull); ok {
			emit(cfgEvent{Kind: "S", Node: n, Obj: cellObj(s.Value)})
			return
		}
		if s, ok := isSendTo(info, n, so.errorF); ok {
			_ = s
			emit(cfgEvent{Kind: "E", Node: n})
			return
		}
		if s, ok := isSendTo(info, n, so.shutdownF); ok {
			_ = s
			emit(cfgEvent{Kind: "T", Node: n})
			return
		}
		if as, ok := n.(*ast.AssignStmt); ok && len(as.Lhs) == 1 && len(as.Rhs) == 1 {
			if cellObj(as.Lhs[0]) == bufObj && chanRecvOf(info, as.Rhs[0], so.poolEmpty) {
				emit(cfgEvent{Kind: "G", Node: n})
				return
			}
			if cellObj(as.Lhs[0]) == hdrObj {
				if v, isC := constIntOf(info, as.Rhs[0]); isC && v == 0 {
					emit(cfgEvent{Kind: "Z", Node: n})
					return
				}
			}
		}
		if usesObj(info, n, bufObj) {
			emit(cfgEvent{Kind: "U", Node: n})
		}
	}
	lps := w.loopsOf(g, classifyIn, nil)
	var hoBad []string
	nPaths := 0
	addBad := func(l *[]string, d string) {
		for _, b := range *l {
			if b == d {
				return
			}
		}
		*l = append(*l, d)
	}
	var errBad []string
	nExitPaths, nPublishing := 0, 0
	for _, lp := range lps {
		for _, p := range lp.Paths {
			nPaths++
			state := "owned"
			sent, got, rearm := 0, 0, 0
			for _, e := range p.Events {
				switch e.Kind {
				case "S":
					if state != "owned" {
						addBad(&hoBad, "a buffer is sent to the full pool twice without taking a fresh one")
					}
					if e.Obj != bufObj {
						addBad(&hoBad, "the value sent to the full pool is not the current buffer")
					}
					state = "handed-off"
					sent++
				case "G":
					state = "owned"
					got++
				case "Z":
					rearm++
				case "U":
					if state == "handed-off" {
						addBad(&hoBad, "the buffer is used at "+w.Pos(e.Node.Pos())+" after it was handed to the parsers and before a fresh one was taken: the parser and the reader share it")
					}
				}
			}
			if p.Back && state == "handed-off" {
				addBad(&hoBad, "an iteration ends with the handed-off buffer still current: the next byte is written into a buffer the parser owns")
			}
			if p.Back && sent > 0 && rearm == 0 {
				addBad(&hoBad, "after a hand-off the prefix count is not reset to 0 on some path: the next frame's length prefix is not recognised")
			}
			if !p.Back {
				nExitPaths++
				seq := ""
				for _, e := range p.Events {
					if e.Kind == "E" || e.Kind == "T" || e.Kind == "S" {
						seq += e.Kind
					}
				}
				// exit paths start at a loop head: hand-offs of completed earlier frames do not occur on them
				if seq == "ET" {
					nPublishing++
				}
				switch seq {
				case "", "ET":
				default:
					addBad(&errBad, fmt.Sprintf("a path leaving the reader performs [%s] (E = send on Error, T = shutdown trigger, S = hand-off to the parsers); expected nothing (closed locally) or exactly E then T", seq))
				}
			}
		}
	}
	if len(hoBad) == 0 && nPaths > 0 {
		r.OK("handoff", in.Key, "inbound", w.Pos(fullSend.Pos()), fmt.Sprintf("%d loop paths: after each hand-off the buffer is untouched until replaced from the empty pool, and the prefix count is re-armed", nPaths), true)
	}
	for i, d := range hoBad {
		r.Fail(VViolation, "handoff", in.Key, fmt.Sprintf("inbound/%d", i+1), w.Pos(fullSend.Pos()), d)
	}

	// ---------------------------------------------------------------- handoff/parse
	streamParseHandoff(w, r, so)

	// ---------------------------------------------------------------- errpath
	// a failed read must be published on at least one exit path: silence on every exit would also pass the
	// per-path test above
	if nExitPaths > 0 && nPublishing == 0 {
		errBad = append(errBad, "no path leaving the reader sends on Error and triggers shutdown: a failed read ends the reader silently and the consumer never learns that the stream died")
	}
	if len(errBad) == 0 && nExitPaths > 0 {
		r.OK("errpath", in.Key, "exits", ipos, fmt.Sprintf("%d paths leave the reader: each publishes nothing (closed locally) or exactly one error followed by the shutdown trigger; none hands a buffer over", nExitPaths), true)
	} else if nExitPaths == 0 {
		r.Fail(VUndecided, "errpath", in.Key, "exits", ipos, "the reader has no path that leaves its loop")
	}
	for i, d := range errBad {
		r.Fail(VViolation, "errpath", in.Key, fmt.Sprintf("exits/%d", i+1), ipos, d)
	}

	// ---------------------------------------------------------------- roles (module-wide)
	type role struct {
		field *types.Var
		send  bool
		who   map[*FuncInfo]bool
		name  string
	}
	npool := w.Funcs["util.NewBufferPool"]
	rolesT := []role{
		{so.poolFull, true, map[*FuncInfo]bool{so.inbound: true}, "senders on the full pool"},
		{so.poolFull, false, map[*FuncInfo]bool{so.parse: true}, "receivers of the full pool"},
		{so.inboundF, true, map[*FuncInfo]bool{so.parse: true}, "senders on Inbound"},
		{so.poolEmpty, false, map[*FuncInfo]bool{so.inbound: true}, "receivers of the empty pool"},
		{so.poolEmpty, true, map[*FuncInfo]bool{so.parse: true, npool: true}, "senders on the empty pool"},
		{so.errorF, true, map[*FuncInfo]bool{so.inbound: true}, "senders on Error"},
		// what was delivered belongs to the consumer: a receive inside the library (a drain at shutdown)
		// throws away messages of frames that had arrived complete
		{so.inboundF, false, map[*FuncInfo]bool{}, "receivers of Inbound inside the library (none)"},
		// the published failure belongs to the consumer as well: a receive inside the library (a getter that
		// caches it, a log line at shutdown) takes it off the channel before the consumer looks
		{so.errorF, false, map[*FuncInfo]bool{}, "receivers of Error inside the library (none)"},
	}
	// a helper that only functions of a role call (and that is never started as a goroutine) runs on that
	// role's goroutine: it belongs to the role
	callers := map[*FuncInfo]map[*FuncInfo]bool{}
	spawned := map[*FuncInfo]bool{}
	w.eachModuleFunc(func(fi *FuncInfo) {
		inf := fi.Pkg.TypesInfo
		ast.Inspect(fi.Decl.Body, func(m ast.Node) bool {
			switch x := m.(type) {
			case *ast.GoStmt:
				if fn, ok := typeutil.Callee(inf, x.Call).(*types.Func); ok {
					if cf := w.FuncOf(fn); cf != nil {
						spawned[cf] = true
					}
				}
			case *ast.CallExpr:
				if fn, ok := typeutil.Callee(inf, x).(*types.Func); ok {
					if cf := w.FuncOf(fn); cf != nil {
						if callers[cf] == nil {
							callers[cf] = map[*FuncInfo]bool{}
						}
						callers[cf][fi] = true
					}
				}
			}
			return true
		})
	})
	for i := range rolesT {
		who := rolesT[i].who
		for changed := true; changed; {
			changed = false
			for f, cs := range callers {
				if who[f] || spawned[f] || len(cs) == 0 {
					continue
				}
				all := true
				for c := range cs {
					if !who[c] {
						all = false
					}
				}
				if all {
					who[f] = true
					changed = true
				}
			}
		}
	}
	for _, rl := range rolesT {
		n := 0
		bad := false
		w.eachModuleFunc(func(fi *FuncInfo) {
			inf := fi.Pkg.TypesInfo
			ast.Inspect(fi.Decl.Body, func(m ast.Node) bool {
				hit := false
				var pos token.Pos
				switch x := m.(type) {
				case *ast.SendStmt:
					if rl.send && fieldOf(inf, x.Chan) == rl.field {
						hit, pos = true, x.Pos()
					}
				case *ast.UnaryExpr:
					if !rl.send && x.Op == token.ARROW && fieldOf(inf, x.X) == rl.field {
						hit, pos = true, x.Pos()
					}
				case *ast.RangeStmt:
					if !rl.send && fieldOf(inf, x.X) == rl.field {
						hit, pos = true, x.Pos()
					}
				case *ast.CallExpr:
					// close(ch) counts as a sender-side operation
					if id, ok := x.Fun.(*ast.Ident); ok && id.Name == "close" && len(x.Args) == 1 && rl.send && fieldOf(inf, x.Args[0]) == rl.field {
						hit, pos = true, x.Pos()
					}
				}
				if hit {
					n++
					if !rl.who[fi] {
						bad = true
						r.Fail(VViolation, "roles", fi.Key, rl.name, w.Pos(pos), "operation on the channel outside the goroutine(s) that own this role ("+rl.name+")")
					}
				}
				return true
			})
		})
		if !bad {
			r.OK("roles", "util.MessageStream", rl.name, ipos, fmt.Sprintf("%d sites, all in the owning function(s)", n), true)
		}
	}
	// the connection is read only through its own Read at that one site: handing it to other code (a
	// LimitReader, a bufio.Reader) creates a second reader the de-framing rules do not see
	w.eachModuleFunc(func(fi *FuncInfo) {
		inf := fi.Pkg.TypesInfo
		var stack []ast.Node
		ast.Inspect(fi.Decl.Body, func(n ast.Node) bool {
			if n == nil {
				stack = stack[:len(stack)-1]
				return true
			}
			stack = append(stack, n)
			se, ok := n.(*ast.SelectorExpr)
			if !ok || fieldOf(inf, se) != so.conn || len(stack) < 2 {
				return true
			}
			parent := stack[len(stack)-2]
			if ps, ok := parent.(*ast.SelectorExpr); ok && ps.X == ast.Expr(se) {
				return true // receiver of a method call or field access
			}
			if kv, ok := parent.(*ast.KeyValueExpr); ok && kv.Value == ast.Expr(se) {
				return true // constructor literal
			}
			if as, ok := parent.(*ast.AssignStmt); ok {
				for _, l := range as.Lhs {
					if l == ast.Expr(se) {
						return true // the constructor stores it
					}
				}
			}
			if be, ok := parent.(*ast.BinaryExpr); ok && (be.Op == token.EQL || be.Op == token.NEQ) {
				return true // nil test
			}
			r.Fail(VViolation, "roles", fi.Key, "conn-escape", w.Pos(se.Pos()), "the stream's connection is passed on as a value (wrapped in another reader or stored elsewhere): bytes of a frame can then be taken by a reader other than the de-framer's single Read")
			return true
		})
	})
	// one Read site; reader spawned once
	nRead, nGo := 0, 0
	w.eachModuleFunc(func(fi *FuncInfo) {
		inf := fi.Pkg.TypesInfo
		ast.Inspect(fi.Decl.Body, func(m ast.Node) bool {
			switch x := m.(type) {
			case *ast.CallExpr:
				if se, ok := unparen(x.Fun).(*ast.SelectorExpr); ok && se.Sel.Name == "Read" && fieldOf(inf, se.X) == so.conn {
					nRead++
					if fi != so.inbound {
						r.Fail(VViolation, "roles", fi.Key, "conn.Read", w.Pos(x.Pos()), "a second reader of the connection: bytes of a frame are split between two de-framers")
					}
				}
				if fn, ok := typeutil.Callee(inf, x).(*types.Func); ok && fn == so.inbound.Obj {
					isGo := false
					ast.Inspect(fi.Decl.Body, func(q ast.Node) bool {
						if gs, ok := q.(*ast.GoStmt); ok && gs.Call == x {
							isGo = true
							nGo++
							if fi != so.ctor || insideLoop(fi.Decl, gs.Pos()) {
								r.Fail(VViolation, "roles", fi.Key, "go-inbound", w.Pos(gs.Pos()), "the reader goroutine is started outside the constructor or inside a loop: several readers per stream")
							}
						}
						return true
					})
					if !isGo {
						r.Fail(VViolation, "roles", fi.Key, "call-inbound", w.Pos(x.Pos()), "the reader is called directly besides its goroutine")
					}
				}
			}
			return true
		})
	})
	if nRead == 1 && nGo == 1 {
		r.OK("roles", "util.MessageStream", "one-reader", ipos, "conn.Read has one call site (in the reader) and the reader is started by exactly one go statement in the constructor", true)
	} else {
		r.Fail(VViolation, "roles", "util.MessageStream", "one-reader", ipos, fmt.Sprintf("%d Read call sites and %d go statements starting the reader; expected 1 and 1", nRead, nGo))
	}
	// ---------------------------------------------------------------- pool buffers own disjoint storage
	poolDisjoint(w, r, so)
	// ---------------------------------------------------------------- owns-memory (C12's rule, as part of this property's statement)
	r2 := NewReport(r.Prop, r.Tier)
	runC12(w, r2)
	for _, o := range r2.Obs {
		if o.Rule != "noalias" {
			continue
		}
		o.Rule = "owns-memory"
		r.Add(o)
	}
	// ---------------------------------------------------------------- inframe (C08's bounds rule, as part of this property's statement)
	// a frame sits at the start of a recycled 2 KiB pool buffer; the bytes behind it are those of earlier frames.
	// A packet-header decoder that re-slices its input beyond len (inside the spare capacity Go allows) hands the
	// consumer a message that contains them: every slice end must be proved <= len of what the decoder was given
	r3 := NewReport(r.Prop, r.Tier)
	runC08(w, r3)
	for _, o := range r3.Obs {
		if o.Rule != "bounds" {
			continue
		}
		o.Rule = "inframe"
		r.Add(o)
	}
}

func isByteSliceOrArray(t types.Type) bool {
	if t == nil {
		return false
	}
	if isByteSlice(t) {
		return true
	}
	_, ok := isByteArray(t)
	return ok
}

// streamParseHandoff: on every path of one parser iteration that took a buffer from the
// full pool there is exactly one parse, one delivery, one Reset and one return of that
// buffer to the empty pool, in this order (also part of C07: a malformed frame must not
// leak pool buffers and so wedge the reader).
func streamParseHandoff(w *World, r *Report, so *streamObjs) {
	info := so.info
	addBad := func(l *[]string, d string) {
		for _, b := range *l {
			if b == d {
				return
			}
		}
		*l = append(*l, d)
	}
	pf := so.parse
	ppos := w.Pos(pf.Decl.Pos())
	pg := w.funcCFG(info, pf.Decl.Body)
	var bObj types.Object
	ast.Inspect(pf.Decl.Body, func(n ast.Node) bool {
		if as, ok := n.(*ast.AssignStmt); ok && len(as.Rhs) == 1 && chanRecvOf(info, as.Rhs[0], so.poolFull) {
			bObj = identObj(info, as.Lhs[0])
		}
		return true
	})
	if bObj == nil {
		r.Fail(VUndecided, "handoff", pf.Key, "parse", ppos, "the parser does not bind the buffer it receives from the full pool to a variable")
	} else {
		// locals that hold (a view of) the buffer's bytes: raw := b.Bytes()
		views := map[types.Object]bool{}
		ast.Inspect(pf.Decl.Body, func(n ast.Node) bool {
			if as, ok := n.(*ast.AssignStmt); ok && len(as.Lhs) == len(as.Rhs) {
				for i, l := range as.Lhs {
					if o := identObj(info, l); o != nil && o != bObj && isByteSlice(o.Type()) && usesObj(info, as.Rhs[i], bObj) {
						views[o] = true
					}
				}
			}
			return true
		})
		usesBuf := func(n ast.Node) bool {
			if usesObj(info, n, bObj) {
				return true
			}
			for o := range views {
				if usesObj(info, n, o) {
					return true
				}
			}
			return false
		}
		var classifyP func(n ast.Node, emit func(cfgEvent))
		helperDepth := 0
		classifyP = func(n ast.Node, emit func(cfgEvent)) {
			// a helper of the stream that is handed the buffer: its operations on the buffer happen here, in the
			// helper's statement order (the buffer is the helper's parameter there)
			if es, ok := n.(*ast.ExprStmt); ok && helperDepth < 2 {
				if c, ok := es.X.(*ast.CallExpr); ok {
					var hbody *ast.BlockStmt
					var hparams *ast.FieldList
					var hinfo *types.Info
					if fn, ok := typeutil.Callee(info, c).(*types.Func); ok {
						if hf := w.FuncOf(fn); hf != nil && hf != pf && hf.Recv != nil && hf.Recv == pf.Recv && hf.Decl.Body != nil {
							hbody, hparams, hinfo = hf.Decl.Body, hf.Decl.Type.Params, hf.Pkg.TypesInfo
						}
					} else if lit := localClosure(info, pf.Decl.Body, c.Fun); lit != nil {
						// a local closure that is handed the buffer: the same, with the literal's body
						hbody, hparams, hinfo = lit.Body, lit.Type.Params, info
					}
					if hbody != nil {
						{
							var param types.Object
							pi := 0
							for _, fl := range hparams.List {
								for _, nm := range fl.Names {
									if pi < len(c.Args) && identObj(info, c.Args[pi]) == bObj {
										param = hinfo.Defs[nm]
									}
									pi++
								}
							}
							if param != nil {
								saveB, saveViews := bObj, views
								bObj, views = param, map[types.Object]bool{}
								ast.Inspect(hbody, func(q ast.Node) bool {
									if as, ok := q.(*ast.AssignStmt); ok && len(as.Lhs) == len(as.Rhs) {
										for i, l := range as.Lhs {
											if o := identObj(info, l); o != nil && o != bObj && isByteSlice(o.Type()) && usesObj(info, as.Rhs[i], bObj) {
												views[o] = true
											}
										}
									}
									return true
								})
								helperDepth++
								outerEmit := emit
								emit := func(e cfgEvent) {
									if e.Obj == param {
										e.Obj = saveB // the helper's parameter is the caller's buffer
									}
									outerEmit(e)
								}
								var walk func(list []ast.Stmt)
								walk = func(list []ast.Stmt) {
									for _, st := range list {
										switch b := st.(type) {
										case *ast.BlockStmt:
											walk(b.List)
										case *ast.IfStmt:
											// the condition may use the buffer; the branches are walked in order
											if usesBuf(b.Cond) {
												emit(cfgEvent{Kind: "U", Node: b.Cond})
											}
											walk(b.Body.List)
											if eb, ok := b.Else.(*ast.BlockStmt); ok {
												walk(eb.List)
											}
										default:
											classifyP(st, emit)
										}
									}
								}
								walk(hbody.List)
								helperDepth--
								bObj, views = saveB, saveViews
								return
							}
						}
					}
				}
			}
			if as, ok := n.(*ast.AssignStmt); ok && len(as.Rhs) == 1 && chanRecvOf(info, as.Rhs[0], so.poolFull) {
				emit(cfgEvent{Kind: "R", Node: n})
				return
			}
			if s, ok := isSendTo(info, n, so.poolEmpty); ok {
				emit(cfgEvent{Kind: "E", Node: n, Obj: identObj(info, s.Value)})
				return
			}
			if _, ok := isSendTo(info, n, so.inboundF); ok {
				emit(cfgEvent{Kind: "I", Node: n})
				return
			}
			done := false
			ast.Inspect(n, func(m ast.Node) bool {
				c, ok := m.(*ast.CallExpr)
				if !ok {
					return true
				}
				se, ok := unparen(c.Fun).(*ast.SelectorExpr)
				if !ok {
					return true
				}
				if se.Sel.Name == "Reset" && identObj(info, se.X) == bObj {
					emit(cfgEvent{Kind: "Z", Node: n})
					done = true
					return false
				}
				if se.Sel.Name == "Parse" && len(c.Args) == 1 && usesBuf(c.Args[0]) {
					emit(cfgEvent{Kind: "P", Node: n})
					done = true
					return false
				}
				return true
			})
			if !done && usesBuf(n) {
				emit(cfgEvent{Kind: "U", Node: n})
			}
		}
		var pBad []string
		nIt := 0
		for _, lp := range w.loopsOf(pg, classifyP, nil) {
			for _, p := range lp.Paths {
				seq := ""
				for _, e := range p.Events {
					if e.Kind != "U" {
						seq += e.Kind
					}
				}
				if !strings.Contains(seq, "R") {
					continue
				}
				nIt++
				if seq != "RPIZE" {
					addBad(&pBad, fmt.Sprintf("a parser path that took a buffer performs [%s] (R = take from full pool, P = parse its bytes, I = deliver on Inbound, Z = Reset, E = return to empty pool); expected exactly R P I Z E — a buffer that is not returned shrinks the pool until the reader blocks, one returned before delivery or twice is recycled while in use", seq))
					continue
				}
				afterE := false
				for _, e := range p.Events {
					if e.Kind == "E" {
						afterE = true
						if e.Obj != bObj {
							addBad(&pBad, "the value returned to the empty pool is not the buffer that was taken")
						}
					} else if e.Kind == "U" && afterE {
						addBad(&pBad, "the buffer is used after it was returned to the empty pool")
					}
				}
			}
		}
		if len(pBad) == 0 && nIt > 0 {
			r.OK("handoff", pf.Key, "parse", ppos, fmt.Sprintf("%d paths of a parser iteration that took a buffer: parse, deliver, Reset, return — each exactly once, in this order", nIt), true)
		} else if nIt == 0 {
			r.Fail(VUndecided, "handoff", pf.Key, "parse", ppos, "no path of the parser loop takes a buffer from the full pool")
		}
		for i, d := range pBad {
			r.Fail(VViolation, "handoff", pf.Key, fmt.Sprintf("parse/%d", i+1), ppos, d)
		}
	}

}

// poolDisjoint: every buffer that enters the pool for the first time (a send on the empty pool of a value that
// was not received from the full pool) is built on storage of its own: bytes.NewBuffer over a make() evaluated
// for that buffer, over nil, or over a slice with an explicit capacity limit; new(bytes.Buffer) / &bytes.Buffer{}.
// A window of a shared slab without a capacity limit lets a frame longer than the window grow into the
// neighbouring buffer, which may hold a frame that is still waiting to be parsed.
func poolDisjoint(w *World, r *Report, so *streamObjs) {
	n := 0
	for _, key := range w.sortedFuncKeys() {
		fi := w.Funcs[key]
		info := fi.Pkg.TypesInfo
		if fi.Decl.Body == nil {
			continue
		}
		ast.Inspect(fi.Decl.Body, func(nd ast.Node) bool {
			ss, ok := nd.(*ast.SendStmt)
			if !ok || fieldOf(info, ss.Chan) != so.poolEmpty {
				return true
			}
			var classify func(e ast.Expr, depth int) (string, string)
			classify = func(e ast.Expr, depth int) (verdict, why string) {
				e = unparen(e)
				switch x := e.(type) {
				case *ast.CallExpr:
					if id, ok := unparen(x.Fun).(*ast.Ident); ok && id.Name == "new" {
						return "ok", "new(bytes.Buffer)"
					}
					if fn, ok := typeutil.Callee(info, x).(*types.Func); ok && fn.Pkg() != nil && fn.Pkg().Path() == "bytes" && (fn.Name() == "NewBuffer" || fn.Name() == "NewBufferString") && len(x.Args) == 1 {
						a := unparen(x.Args[0])
						switch y := a.(type) {
						case *ast.CallExpr:
							if id, ok := unparen(y.Fun).(*ast.Ident); ok && id.Name == "make" {
								return "ok", "bytes.NewBuffer over a make() evaluated for this buffer"
							}
						case *ast.Ident:
							if y.Name == "nil" {
								return "ok", "bytes.NewBuffer(nil)"
							}
						case *ast.SliceExpr:
							if y.Slice3 && y.Max != nil {
								return "ok", "window of a slab with an explicit capacity limit"
							}
							return "bad", "the buffer is built on " + types.ExprString(y) + ", a window of shared storage without a capacity limit: a frame longer than the window grows into the next buffer's bytes"
						}
						return "bad", "the buffer is built on " + types.ExprString(a) + ", storage that is not allocated for this buffer alone"
					}
					return "skip", ""
				case *ast.UnaryExpr:
					if x.Op == token.AND {
						if _, ok := unparen(x.X).(*ast.CompositeLit); ok {
							return "ok", "&bytes.Buffer{}"
						}
					}
				case *ast.Ident:
					if depth > 2 {
						return "skip", ""
					}
					o := info.Uses[x]
					if o == nil {
						return "skip", ""
					}
					// the definitions of the variable in this function
					verdict = "skip"
					ast.Inspect(fi.Decl.Body, func(m ast.Node) bool {
						as, ok := m.(*ast.AssignStmt)
						if !ok {
							return true
						}
						for i, l := range as.Lhs {
							if identObj(info, l) != o || i >= len(as.Rhs) {
								continue
							}
							rhs := unparen(as.Rhs[i])
							if u, ok := rhs.(*ast.UnaryExpr); ok && u.Op == token.ARROW {
								continue // received from a pool channel: recycling, decided by the hand-off rule
							}
							v, y := classify(rhs, depth+1)
							if v == "bad" || (v == "ok" && verdict != "bad") {
								verdict, why = v, y
							}
						}
						return true
					})
					return verdict, why
				}
				return "skip", ""
			}
			v, why := classify(ss.Value, 0)
			switch v {
			case "ok":
				n++
				r.OK("pool-disjoint", fi.Key, types.ExprString(ss.Value), w.Pos(ss.Pos()), why, true)
			case "bad":
				n++
				r.Fail(VViolation, "pool-disjoint", fi.Key, types.ExprString(ss.Value), w.Pos(ss.Pos()), why)
			}
			return true
		})
	}
	if n == 0 {
		r.Fail(VViolation, "pool-disjoint", "util.BufferPool", "", "-", "no site that fills the buffer pool was found (anchor of the rule cannot be resolved)")
	}
}

// be16Read finds, inside e, a 16-bit (or other) big/little-endian read of a byte buffer: either a call of an
// encoding/binary ByteOrder getter on a slice of the buffer, or the same spelled with shifts
// (uint16(b[k])<<8 | uint16(b[k+1])). It returns the buffer expression, the offset of the first byte, the
// byte order ("BigEndian"/"LittleEndian"), the width in bytes and the getter's name.
func be16Read(info *types.Info, e ast.Expr) (base ast.Expr, lo int64, order string, width int, name string, ok bool) {
	ast.Inspect(e, func(m ast.Node) bool {
		if ok {
			return false
		}
		switch x := m.(type) {
		case *ast.CallExpr:
			fn, isFn := typeutil.Callee(info, x).(*types.Func)
			if !isFn || fn.Pkg() == nil || fn.Pkg().Path() != "encoding/binary" || !strings.HasPrefix(fn.Name(), "Uint") || len(x.Args) != 1 {
				return true
			}
			if se, isSel := unparen(x.Fun).(*ast.SelectorExpr); isSel {
				order = types.ExprString(se.X)
				if i := strings.LastIndex(order, "."); i >= 0 {
					order = order[i+1:]
				}
			}
			name = fn.Name()
			switch name {
			case "Uint16":
				width = 2
			case "Uint32":
				width = 4
			case "Uint64":
				width = 8
			}
			base, lo = x.Args[0], 0
			if sl, isSl := unparen(x.Args[0]).(*ast.SliceExpr); isSl {
				base = sl.X
				if sl.Low != nil {
					lo, _ = constIntOf(info, sl.Low)
				}
			}
			ok = true
			return false
		case *ast.BinaryExpr:
			// uint16(b[k])<<8 | uint16(b[k+1])   (also with +)
			if x.Op != token.OR && x.Op != token.ADD {
				return true
			}
			hi, isSh := unparen(x.X).(*ast.BinaryExpr)
			if !isSh || hi.Op != token.SHL {
				return true
			}
			if sh, isC := constIntOf(info, hi.Y); !isC || sh != 8 {
				return true
			}
			byteAt := func(v ast.Expr) (ast.Expr, int64, bool) {
				v = unparen(v)
				if c, isCall := v.(*ast.CallExpr); isCall && len(c.Args) == 1 {
					if tv, isT := info.Types[c.Fun]; isT && tv.IsType() {
						v = unparen(c.Args[0])
					}
				}
				ix, isIx := v.(*ast.IndexExpr)
				if !isIx {
					return nil, 0, false
				}
				k, isC := constIntOf(info, ix.Index)
				return ix.X, k, isC
			}
			b1, k1, ok1 := byteAt(hi.X)
			b2, k2, ok2 := byteAt(x.Y)
			if ok1 && ok2 && types.ExprString(b1) == types.ExprString(b2) && k2 == k1+1 {
				base, lo, order, width, name, ok = b1, k1, "BigEndian", 2, "Uint16", true
				return false
			}
		}
		return true
	})
	return
}

// singleReturnOf: for a call of a module function whose body is one `return <expr>`, that expression.
func singleReturnOf(w *World, info *types.Info, e ast.Expr) ast.Expr {
	c, ok := unparen(e).(*ast.CallExpr)
	if !ok {
		return e
	}
	fn, _ := typeutil.Callee(info, c).(*types.Func)
	if fn == nil {
		return e
	}
	fi := w.FuncOf(fn)
	if fi == nil || fi.Decl.Body == nil || len(fi.Decl.Body.List) != 1 {
		return e
	}
	rs, ok := fi.Decl.Body.List[0].(*ast.ReturnStmt)
	if !ok || len(rs.Results) != 1 {
		return e
	}
	return rs.Results[0]
}
