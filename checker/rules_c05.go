package main

// C05 — library round trip (DESIGN §3 C05): encoder and decoder of each kind
// must mirror each other record by record.

import (
	"fmt"
	"go/ast"
	"go/token"
	"go/types"
	"os"
	"regexp"
	"sort"
	"strings"
)

func init() {
	register(&propCheck{
		ID:      "C05",
		Run:     runC05,
		NeedSSA: true,
		Level:   "Static analysis (write records of every encoder and read records of every decoder from the abstract interpreter, compared per kind; dispatcher tables against constructor codes; syntactic guard rule). Decides sibling agreement, a NECESSARY structural part of the round trip: mirror/<kind>/<field> — every receiver field the encoder writes at a fixed or symbolic offset is read back by the decoder from the same offset, with the same width and byte order, into the same field, and every field the decoder fills is one the encoder wrote at that offset (child encodings ↔ child decodings likewise, list loops by their base offset and the list they fill); trailing/<decoder> — no decoder tests the input length for equality (an element followed by others must still decode); codes/<dispatcher>/<code> — the type code each constructor stores selects, in the dispatcher that decodes that family (Parse, DecodeAction, DecodeNxAction, DecodeInstr), the kind that constructor returns; retain/<decoder>/<loop> — the element decoded in each iteration of a list loop is stored into the receiver. Not decided: equality of values (follows from the records only for fields copied verbatim); optional parts whose presence the two sides decide differently (encoder: pointer non-nil, decoder: flag bit) are compared by offset inside their guards only; packed bit fields are C09/C15's lanes rule; kinds whose Go representation is not canonical (net.IP of 4 vs 16 bytes). mirror also has skipfill:<field> — a part the encoder always writes is filled by the decoder on every accepting path (decoding into a value that was used before must not leave old contents that are then encoded again). Also decided: errfail (as in C02).",
		Assumptions: []string{
			"constructor-established widths of fixed-size fields (reviewed table in checker/premises.go) hold for encoder-side offsets",
			"spec/codes.json constructor→code tables",
		},
	})
}

type mrec struct {
	off, w      *Term
	kind, order string
	field       string // receiver path for field/bytes/child records
	local       bool   // destination/source is a local (packed or staged value)
	guard       string
	loop        bool
	loopList    string
	pos         token.Pos
	raw         string
}

func fieldOfSrc(src string) (string, string) {
	switch {
	case strings.HasPrefix(src, "val($") && strings.HasSuffix(src, ")") && !strings.ContainsAny(src[4:len(src)-1], "() +"):
		// exactly one field (a sum or a packed expression of several fields is a computed, local source)
		return src[4 : len(src)-1], "field"
	case strings.HasPrefix(src, "enc($") && strings.HasSuffix(src, ")"):
		return src[4 : len(src)-1], "child"
	case strings.HasPrefix(src, "dec($"):
		s := src[4 : len(src)-1]
		if i := strings.LastIndex(s, ":"); i >= 0 {
			s = s[:i]
		}
		return s, "child"
	case strings.HasPrefix(src, "$"):
		// bytes of a receiver slice, possibly through a view such as .To4() or .Bytes()
		s := src
		for _, suf := range []string{".To4()", ".To16()", ".Bytes()", ".Buffer"} {
			s = strings.ReplaceAll(s, suf, "")
		}
		return s, "bytes"
	}
	return "", ""
}

func runC05(w *World, r *Report) {
	r.Rule("stepspec", "a list decoder whose advance the wire format fixes (hello elements: next multiple of 8) advances by exactly that", 1)
	stepSpecRule(w, r, "stepspec")
	r.Rule("shiftwidth", "no shift by a constant count that is as large as its operand's type (the value would always be 0: bits lost before widening)", 1)
	shiftWidthRule(w, r, "shiftwidth", func(fi *FuncInfo) bool { return fi.Pkg.Types.Name() == "openflow13" || fi.Pkg.Types.Name() == "common" })
	r.Rule("shadow", "no := in an inner scope re-declares a same-typed variable of the function that is read afterwards (or a named result): the value computed there would be lost", 1)
	shadowRule(w, r, "shadow", func(fi *FuncInfo) bool { return fi.Pkg.Types.Name() == "openflow13" || fi.Pkg.Types.Name() == "common" })
	r.Rule("typednil-var", "a pointer result that can be a bare nil is not assigned to an interface-typed variable (a typed nil passes == nil tests the wrong way)", 1)
	typedNilVarRule(w, r, "typednil-var", func(fi *FuncInfo) bool { return fi.Pkg.Types.Name() == "openflow13" || fi.Pkg.Types.Name() == "common" })
	r.Rule("tailguard", "a decoder that keeps the rest of its input from some offset admits every input that has a byte there", 1)
	tailGuardRule(w, r, "tailguard", func(k *Kind) bool {
		return strings.HasPrefix(k.Name, "openflow13.") || strings.HasPrefix(k.Name, "common.")
	})
	r.Rule("observers", "methods that formatting calls implicitly (String, Error, …) leave the value unchanged", 1)
	observerRule(w, r, "observers", "openflow13", "common", "util")
	r.Rule("owns-memory", "a decoded value keeps no reference into the input it was decoded from (the C12 may-alias rule): it still equals what was decoded when the input buffer is reused", 60)
	{
		r2 := NewReport(r.Prop, r.Tier)
		runC12(w, r2)
		for _, o := range r2.Obs {
			if o.Rule == "noalias" {
				o.Rule = "owns-memory"
				r.Add(o)
			}
		}
	}
	r.Rule("reject", "every error exit of a decoder is behind a short input, a failed child or an unknown code, or is a reviewed rejection by value (spec/rejections.json)", 20)
	rejectRule(w, r, "reject", func(pkg string) bool { return pkg == "openflow13" || pkg == "common" })
	r.Rule("selfdecode", "a dispatcher returns only values its own decoder filled from the input", 20)
	selfDecodeRule(w, r, "selfdecode")
	r.Rule("oxmcodes", "every class/field number a match-field constructor stores has a decoding case in the match-field dispatcher", 30)
	{
		r2 := NewReport(r.Prop, r.Tier)
		w.oxmDispatchRule(r2, "oxmcodes", true)
		for _, o := range r2.Obs {
			if strings.HasPrefix(o.Instance, "covered:") || o.Verdict != VOK {
				r.Add(o)
			}
		}
	}
	r.Rule("stateless", "encoders and decoders depend on no package-level state that a call can change (pooled buffers, caches, shared table entries)", 8)
	importStateless(w, r, "stateless")
	r.Rule("mirror", "fields written by an encoder are read back from the same offset, width and byte order into the same field, and vice versa", 300)
	r.Rule("trailing", "decoders test the input length with lower bounds only", 60)
	r.Rule("codes", "the code a constructor stores selects, in the dispatcher, the kind that constructor returns", 30)
	r.Rule("retain", "elements decoded in list loops are stored into the receiver", 5)
	r.Rule("errfail", "in the codecs a failed step fails the whole: the branch for a non-nil error returns a non-nil error (no log-and-continue that leaves an element out while counts and declared lengths still include it)", 50)
	errFailRule(w, r, "errfail", func(fi *FuncInfo) bool {
		n := fi.Pkg.Types.Name()
		return n == "openflow13" || n == "protocol" || n == "common"
	})
	r.Rule("extent", "the size an element reports (by which list decoders advance) equals the bytes its encoder produces", 100)
	r.Rule("exhaust", "list-decoding loops run while any element can remain", 6)
	r.Rule("keepall", "an element consumed by a list loop is stored on every path", 0)
	r.Rule("oxm-varlen", "variable-length OXM payloads are decoded with oxm_length (no mask) or half of it (mask), as the encoder writes them", 2)
	r.Rule("fresh", "a value decoded into inside a list loop is new in each iteration (or fully overwritten by the child decoder)", 7)

	nKinds := 0
	for _, k := range w.KindsL {
		if k.Marshal == nil || k.Unmarshal == nil || !k.OwnMarshal || !k.OwnUnmarshal {
			continue
		}
		efi, dfi := w.FuncOf(k.Marshal), w.FuncOf(k.Unmarshal)
		if efi == nil || dfi == nil {
			continue
		}
		nKinds++
		mirrorKind(w, r, k, efi, dfi)
	}
	r.Stats["two_way_kinds"] = nKinds

	// ---------------------------------------------------------------- extent
	// list decoders advance by the size the decoded element reports; the encoder must have produced exactly
	// that many bytes for it (size function ≡ bytes produced, as symbolic terms)
	extentRule(w, r, "extent")
	// ---------------------------------------------------------------- trailing
	trailingRule(w, r)
	// a declared length that differs from the bytes produced is re-read by the decoder as the element's extent:
	// decoding the encoding and encoding again gives other bytes
	r.Rule("wirelen", "the declared length each encoder puts on the wire equals the bytes the element occupies at the moment of encoding", 34)
	if ak, ik, ok := elementKinds(w); ok {
		runWirelen(w, r, ak, ik)
	}

	// ---------------------------------------------------------------- codes
	codesRule(w, r)
	w.oxmVarLenRule(r)

	// ---------------------------------------------------------------- retain
	for _, k := range w.KindsL {
		if k.Unmarshal == nil || !k.OwnUnmarshal {
			continue
		}
		dfi := w.FuncOf(k.Unmarshal)
		if dfi == nil {
			continue
		}
		retainRule(w, r, dfi)
		freshRule(w, r, dfi)
		exhaustRule(w, r, dfi)
		keepAllRule(w, r, dfi)
	}
	// list loops moved out of a decoder into a helper are still list loops of the decoder
	for _, hfi := range decodeHelpers(w, func(pkg string) bool { return pkg != "protocol" && pkg != "util" && pkg != "ofbase" }) {
		freshRule(w, r, hfi)
		exhaustRule(w, r, hfi)
		keepAllRule(w, r, hfi)
	}
}

// decodeHelpers: functions and methods that take input bytes, contain a loop and are not themselves a
// kind's decoder, encoder or size function — the steps a decoder was split into.
func decodeHelpers(w *World, pkgSel func(pkg string) bool) []*FuncInfo {
	var out []*FuncInfo
	for _, key := range w.sortedFuncKeys() {
		fi := w.Funcs[key]
		if fi.Decl.Body == nil || !pkgSel(fi.Pkg.Name) {
			continue
		}
		switch fi.Decl.Name.Name {
		case "UnmarshalBinary", "MarshalBinary", "Len":
			continue
		}
		sig := fi.Obj.Type().(*types.Signature)
		hasBytes := false
		for i := 0; i < sig.Params().Len(); i++ {
			if isByteSlice(sig.Params().At(i).Type()) {
				hasBytes = true
			}
		}
		if !hasBytes {
			continue
		}
		hasLoop := false
		ast.Inspect(fi.Decl.Body, func(n ast.Node) bool {
			switch n.(type) {
			case *ast.ForStmt, *ast.RangeStmt:
				hasLoop = true
			}
			return !hasLoop
		})
		if hasLoop {
			out = append(out, fi)
		}
	}
	return out
}

// mirrorKind compares the write and read records of one kind.
func mirrorKind(w *World, r *Report, k *Kind, efi, dfi *FuncInfo) {
	es := w.EncSummary(k)
	ds := w.Interpret(dfi, "decode")
	epos := w.Pos(efi.Decl.Pos())
	if es != nil {
		for _, n := range es.Notes {
			if strings.Contains(n.Text, "general for loop") {
				r.OK("mirror", k.Name, "", epos, "encoder walks a data-dependent loop (reviewed separately: assumed_safe row of the size rule); records not compared", false)
				return
			}
		}
	}
	if es == nil || es.Size == nil {
		r.Fail(VUndecided, "mirror", k.Name, "", epos, "no summary of the encoder")
		return
	}
	if k.Name == "util.Buffer" {
		r.OK("mirror", k.Name, "", epos, "the receiver is the byte buffer itself: encoder returns its bytes, decoder replaces them", false)
		return
	}
	for _, n := range es.Notes {
		if strings.Contains(n.Text, "general for loop") {
			r.OK("mirror", k.Name, "", epos, "encoder walks a data-dependent loop (reviewed separately: assumed_safe row of the size rule); records not compared", false)
			return
		}
	}
	decoderHasOpaqueLoop := false
	for _, n := range ds.Notes {
		if strings.Contains(n.Text, "general for loop") {
			decoderHasOpaqueLoop = true
		}
	}
	used := map[string]bool{}
	kf := w.Facts(k)
	// wire atoms of the decoder -> the fields they were stored into
	inv := map[string]*Term{}
	for _, rd := range ds.Reads {
		if (rd.Kind == "int" || rd.Kind == "byte") && strings.HasPrefix(rd.Src, "val($") {
			f := rd.Src[4 : len(rd.Src)-1]
			var key string
			if rd.Kind == "byte" {
				key = "val(P[" + rd.Off.String() + "])"
			} else {
				key = fmt.Sprintf("val(P[%s:%s])", rd.Off.String(), rd.W.String())
			}
			if _, dup := inv[key]; !dup {
				inv[key] = ValOf(f)
			}
		}
	}
	// local objects of the decoder that end up in receiver fields
	objField := map[string]string{}
	if ds.Final != nil {
		fields := map[string]Val{}
		canonFields(ds.Final, "$", "$", fields, 0)
		put := func(obj, f string) {
			if isLocalObj(obj) && !strings.Contains(f, "copyof:") {
				if old, ok := objField[obj]; !ok || f < old {
					objField[obj] = f
				}
			}
		}
		for f, v := range fields {
			switch vv := v.(type) {
			case ObjV:
				put(vv.Path, f)
			case MaybeV:
				put(vv.V.Path, f)
			case AltV:
				for _, o := range vv.Alts {
					put(o.Path, f)
				}
			}
		}
	}
	if os.Getenv("OFV_DEBUG") == k.Name {
		fmt.Println("objField", objField)
	}
	canonObj := func(p string) string {
		for o, f := range objField {
			if p == o || strings.HasPrefix(p, o+".") {
				return f + p[len(o):]
			}
		}
		return p
	}
	norm := func(t *Term, dec bool) *Term {
		if t == nil {
			return Const(0)
		}
		if dec {
			for o, f := range objField {
				t = t.Reroot2(o, f)
			}
			t = t.Map(func(a *Atom) *Term {
				if v, ok := inv[a.Key()]; ok {
					return v
				}
				return nil
			})
		}
		t = stripWraps(t, used)
		t = w.ExpandLens(t, 0)
		t = stripWraps(t, used)
		t = applyFacts(t, kf, used)
		t = w.applyPremises(k, t, used)
		t = w.applyNestedFacts(k, t, used)
		return t
	}
	conv := func(rc *Rec, dec bool, loops []*LoopRec) *mrec {
		m := &mrec{off: norm(rc.Off, dec), w: norm(rc.W, dec), kind: rc.Kind, order: rc.Order, guard: rc.Guard, pos: rc.Pos, raw: rc.Src}
		if rc.Loop != nil {
			m.loop = true
			m.loopList = rc.Loop.List
		}
		src := rc.Src
		if dec {
			for _, pre := range []string{"dec(", "val("} {
				if strings.HasPrefix(src, pre+"new#") {
					inner := src[len(pre):]
					end := strings.IndexAny(inner, ":)")
					if end > 0 {
						src = pre + canonObj(inner[:end]) + inner[end:]
					}
				}
			}
			if strings.HasPrefix(src, "new#") {
				src = canonObj(src)
			}
		}
		f, cls := fieldOfSrc(src)
		if cls == "" {
			m.local = true
		} else {
			m.field = f
			if cls == "child" {
				m.kind = "child"
			} else if cls == "bytes" && m.kind != "child" {
				m.kind = "bytes"
			}
		}
		// decoder loop records: the offset is the loop symbol; use its entry value
		if dec && m.loop {
			for _, l := range loops {
				if ev, ok := l.Entry[rc.Off.String()]; ok {
					m.off = norm(ev, true)
				}
			}
		}
		return m
	}
	var W, R []*mrec
	if os.Getenv("OFV_DEBUG") == k.Name {
		for _, rc := range es.Recs {
			fmt.Println("encrec", rc.Off, rc.W, rc.Kind, rc.Src)
		}
	}
	seen := map[string]bool{}
	for _, rc := range es.Recs {
		m := conv(rc, false, nil)
		key := fmt.Sprintf("%v|%v|%s|%s|%s", m.off, m.w, m.kind, rc.Src, rc.Guard)
		if !seen[key] {
			seen[key] = true
			W = append(W, m)
		}
	}
	seen = map[string]bool{}
	for _, rc := range ds.Reads {
		m := conv(rc, true, ds.Loops)
		key := fmt.Sprintf("%v|%v|%s|%s|%s", m.off, m.w, m.kind, rc.Src, rc.Guard)
		if !seen[key] {
			seen[key] = true
			R = append(R, m)
		}
	}
	{
		info := dfi.Pkg.TypesInfo
		var recv types.Object
		if dfi.Decl.Recv != nil && len(dfi.Decl.Recv.List) > 0 && len(dfi.Decl.Recv.List[0].Names) > 0 {
			recv = info.Defs[dfi.Decl.Recv.List[0].Names[0]]
		}
		ast.Inspect(dfi.Decl.Body, func(n ast.Node) bool {
			as, ok := n.(*ast.AssignStmt)
			if !ok || len(as.Rhs) != 1 {
				return true
			}
			call, ok := unparen(as.Rhs[0]).(*ast.CallExpr)
			if !ok {
				return true
			}
			se, ok := unparen(as.Lhs[0]).(*ast.SelectorExpr)
			if !ok {
				return true
			}
			id, ok := unparen(se.X).(*ast.Ident)
			if !ok || recv == nil || info.Uses[id] != recv {
				return true
			}
			if fn := w.calleeOf(info, call); fn == nil || w.FuncOf(fn) == nil {
				return true // only the module's own dispatchers hand back a decoded child
			}
			for _, a := range call.Args {
				if off, ok := ds.In.SliceOff[unparen(a)]; ok && isByteSlice(info.TypeOf(a)) {
					R = append(R, &mrec{off: norm(off, true), w: Const(0), kind: "child", field: "$." + se.Sel.Name, pos: as.Pos(), raw: "call"})
				}
			}
			return true
		})
	}
	// fields the decoder stores without a read record of their own (pointers to staged locals, appended lists)
	storedFields := map[string]bool{}
	for _, st := range ds.Stores {
		storedFields[strings.TrimSuffix(st.Path, "[]")] = true
	}
	readsOf := func(field string) []*mrec {
		var out []*mrec
		for _, m := range R {
			if !m.local && m.field == field {
				out = append(out, m)
			}
		}
		return out
	}
	writesOf := func(field string) []*mrec {
		var out []*mrec
		for _, m := range W {
			if !m.local && m.field == field {
				out = append(out, m)
			}
		}
		return out
	}
	readAt := func(off *Term) *mrec {
		for _, m := range R {
			if m.off.Equal(off) {
				return m
			}
		}
		return nil
	}
	isPad := func(f string) bool {
		l := f
		if i := strings.LastIndex(f, "."); i >= 0 {
			l = f[i+1:]
		}
		l = strings.ToLower(l)
		return strings.HasPrefix(l, "pad") || strings.HasPrefix(l, "zero") || l == "reserved" || isPaddingField(w, k.Name, f)
	}
	done := map[string]bool{}
	// ---- encoder → decoder
	for _, wm := range W {
		if wm.local || wm.kind == "zero" || wm.kind == "const" || wm.field == "" || isPad(wm.field) {
			continue
		}
		inst := wm.kind + ":" + wm.field
		if done[inst] {
			continue
		}
		done[inst] = true
		rs := readsOf(wm.field)
		pos := w.Pos(wm.pos)
		if strings.HasSuffix(wm.field, "[*]") {
			list := strings.TrimSuffix(wm.field, "[*]")
			if storedFields[list] {
				r.OK("mirror", k.Name, inst, pos, "list elements: the decoder fills "+list+" in a loop (retain rule); element offsets follow from the elements' own sizes", true)
			} else {
				r.Fail(VViolation, "mirror", k.Name, inst, pos, fmt.Sprintf("the encoder writes the elements of %s, but the decoder never stores anything into that list: they are lost in a round trip", list))
			}
			continue
		}
		if len(rs) == 0 && storedFields[wm.field] {
			// bytes copied into the field must come from the input itself: a value computed from the input by a
			// function the interpreter does not follow (trimmed, re-sliced, transformed) is not what was written
			if wm.kind == "bytes" {
				badSrc := ""
				for _, c := range ds.Copies {
					if c.Dst == wm.field && c.Src != "" && c.Src != "P" && !strings.HasPrefix(c.Src, "arg:") && c.Src != "local" && !strings.HasPrefix(c.Src, "$") {
						badSrc = c.Src
					}
				}
				if badSrc != "" {
					r.Fail(VViolation, "mirror", k.Name, inst, pos, fmt.Sprintf("the encoder writes %s (width %v), but the decoder fills it from %s, a value computed from the input rather than the bytes at that place: length or contents differ after a round trip", wm.field, wm.w, badSrc))
					continue
				}
			}
			r.OK("mirror", k.Name, inst, pos, "the decoder fills "+wm.field+" from a staged local (offset not compared here)", false)
			continue
		}
		if len(rs) == 0 && wm.loop && decoderHasOpaqueLoop {
			r.OK("mirror", k.Name, inst, pos, "list elements written in a loop; the decoder walks its list in a loop the interpreter does not summarise (general for loop): element records not compared", false)
			continue
		}
		if len(rs) == 0 {
			if o := readAt(wm.off); o != nil && !o.local && o.field != "" && o.field != wm.field && !isPad(o.field) {
				r.Fail(VViolation, "mirror", k.Name, inst, pos, fmt.Sprintf("the encoder writes %s at offset %v, but the decoder reads that offset into %s: the two fields are crossed", wm.field, wm.off, o.field))
			} else if o != nil && o.local {
				r.OK("mirror", k.Name, inst, pos, fmt.Sprintf("offset %v is unpacked through a local on the decoder side (bit-lane rule)", wm.off), false)
			} else {
				r.Fail(VViolation, "mirror", k.Name, inst, pos, fmt.Sprintf("the encoder writes %s at offset %v (width %v), but the decoder never fills that field: it is lost in a round trip", wm.field, wm.off, wm.w))
			}
			continue
		}
		// some read of the field must agree in offset (and width/order for scalar fields)
		var best *mrec
		for _, rm := range rs {
			if rm.off.Equal(wm.off) {
				best = rm
				break
			}
		}
		if best == nil {
			// an offset that depends on a branch: each arm must be an offset the decoder reads the field from
			if arms := iteArms(wm.off); len(arms) > 1 {
				all := true
				for _, a := range arms {
					hit := false
					for _, rm := range rs {
						for _, ra := range iteArms(rm.off) {
							if ra.Equal(a) {
								hit = true
							}
						}
					}
					all = all && hit
				}
				if all {
					r.OK("mirror", k.Name, inst, pos, fmt.Sprintf("written at %v; the decoder reads the field at each of these offsets under its own test (the tests themselves are the presence rule of C09)", wm.off), true)
					continue
				}
			}
			opaque := func(t *Term) bool {
				return t.HasAtom(func(a *Atom) bool {
					return a.Kind == "opq" && (strings.HasPrefix(a.Path, "after:") || strings.HasPrefix(a.Path, "loop:"))
				})
			}
			if opaque(rs[0].off) || opaque(wm.off) {
				r.OK("mirror", k.Name, inst, pos, "read after a counted loop: the offset is the loop's exit value (not compared)", false)
				continue
			}
			if wm.guard != "" || rs[0].guard != "" || wm.loop || rs[0].loop {
				r.OK("mirror", k.Name, inst, pos, fmt.Sprintf("conditional / repeated part: written at %v under [%s], read at %v under [%s] (offsets inside optional parts are compared by C03/C04 against the layout tables)", wm.off, wm.guard, rs[0].off, rs[0].guard), false)
				continue
			}
			r.Fail(VViolation, "mirror", k.Name, inst, pos, fmt.Sprintf("the encoder writes %s at offset %v, the decoder reads it from offset %v", wm.field, wm.off, rs[0].off))
			continue
		}
		if wm.kind == "int" || wm.kind == "byte" {
			if !best.w.Equal(wm.w) {
				r.Fail(VViolation, "mirror", k.Name, inst, pos, fmt.Sprintf("%s is written with width %v but read with width %v at offset %v", wm.field, wm.w, best.w, wm.off))
				continue
			}
			if wm.order != best.order && wm.w.IsConst() && wm.w.C > 1 {
				r.Fail(VViolation, "mirror", k.Name, inst, pos, fmt.Sprintf("%s is written %s-endian but read %s-endian", wm.field, orderName(wm.order), orderName(best.order)))
				continue
			}
		}
		r.OK("mirror", k.Name, inst, pos, fmt.Sprintf("offset %v, width %v on both sides", wm.off, wm.w), wm.off.Symbolic() || len(used) > 0)
	}
	// ---- a part the encoder always writes is filled by the decoder on every accepting path: a read that sits
	// under a condition which an accepting return after it does not carry is skipped on that path, and a
	// receiver that was decoded into before keeps the part's old contents (they are then encoded again)
	{
		skipDone := map[string]bool{}
		for _, rm := range R {
			if rm.local || rm.field == "" || isPad(rm.field) || rm.loop || rm.guard == "" || strings.HasSuffix(rm.field, "[*]") || skipDone[rm.field] {
				continue
			}
			ws := writesOf(rm.field)
			if len(ws) == 0 {
				continue
			}
			always := true
			for _, wm := range ws {
				if wm.guard != "" || wm.loop {
					always = false
				}
			}
			if !always {
				continue
			}
			// another read of the same field that is not under the condition (an else arm) fills it there
			alts := 0
			for _, o := range R {
				if o != rm && !o.local && o.field == rm.field && o.guard != rm.guard {
					alts++
				}
			}
			if alts > 0 || storedElsewhere(ds, rm.field, rm.guard) {
				continue
			}
			rc := conjunctsOf(rm.guard)
			for _, rt := range ds.Rets {
				if rt.IsErr || rt.Pos < rm.pos {
					continue
				}
				have := map[string]bool{}
				for _, c := range conjunctsOf(rt.Guard) {
					have[strings.TrimSpace(c)] = true
				}
				missing := ""
				for _, c := range rc {
					if c = strings.TrimSpace(c); c != "" && !have[c] {
						missing = c
					}
				}
				if missing != "" {
					skipDone[rm.field] = true
					r.Fail(VViolation, "mirror", k.Name, "skipfill:"+rm.field, w.Pos(rm.pos), fmt.Sprintf("the encoder always writes %s, but the decoder fills it only when %s; the accepting return at %s is reached without that: decoding into a value that was used before leaves the old %s in place, and it is encoded again", rm.field, missing, w.Pos(rt.Pos), rm.field))
					break
				}
			}
		}
	}
	// ---- decoder → encoder
	for _, rm := range R {
		if rm.local || rm.field == "" || isPad(rm.field) {
			continue
		}
		inst := rm.kind + ":" + rm.field
		if done[inst] || done["int:"+rm.field] || done["byte:"+rm.field] || done["bytes:"+rm.field] || done["child:"+rm.field] {
			continue
		}
		done[inst] = true
		if len(writesOf(rm.field)) == 0 && len(writesOf(rm.field+"[*]")) > 0 {
			continue // a list: compared from the encoder side
		}
		if len(writesOf(rm.field)) == 0 {
			// the field may be written as part of a packed expression (local source): look for any write at the offset
			packed := false
			computed := ""
			altered := ""
			zeroed := false
			for _, wm := range W {
				// zeros (or a constant) written where the decoder takes a field: the field never reaches the wire
				if wm.off.Equal(rm.off) && (wm.kind == "zero" || wm.raw == "zero") {
					if wm.w.Equal(rm.w) && wm.guard == "" && rm.guard == "" {
						zeroed = true
					}
					continue // zeros are not the field packed with others
				}
				if wm.off.Equal(rm.off) && (wm.local || wm.kind == "packed") {
					// a value computed from other parts of the receiver (the size of the payload written where
					// the decoder finds a stored field) is not that field packed with others
					if wm.kind != "packed" && strings.Contains(wm.raw, "$.") && !mentionsField(wm.raw, rm.field) {
						if specDerived(k.Name, wm.off.String(), wm.raw) {
							packed = true // the specification defines this wire field as that derived length
							continue
						}
						computed = wm.raw
						continue
					}
					// the decoder takes the whole word at this offset as the field; an encoder that writes a word of the
					// same width computed from the field and something else (the field plus 4 under a condition) does
					// not give the field back
					if wm.kind != "packed" && wm.w.Equal(rm.w) && (rm.kind == "int" || rm.kind == "byte") && strings.Contains(wm.raw, "$.") && wm.raw != "val("+rm.field+")" && !bitPacked(wm.raw) {
						if !specDerived(k.Name, wm.off.String(), wm.raw) {
							altered = wm.raw
							continue
						}
					}
					packed = true
				}
				// a read inside the window of a packed word (the 32-bit OXM header): the lanes rule of C15
				if d := rm.off.Sub(wm.off); d.IsConst() && wm.w.IsConst() && d.C >= 0 && d.C < wm.w.C && (wm.local || wm.kind == "packed" || strings.Contains(wm.raw, "oxmheader(")) {
					packed = true
				}
			}
			if packed {
				r.OK("mirror", k.Name, inst, w.Pos(rm.pos), fmt.Sprintf("offset %v is packed from several fields on the encoder side (bit-lane rule)", rm.off), false)
				continue
			}
			if zeroed && !packed {
				r.Fail(VViolation, "mirror", k.Name, inst, w.Pos(rm.pos), fmt.Sprintf("the decoder fills %s from offset %v, where the encoder writes zero bytes: the field's value never reaches the wire and a round trip loses it", rm.field, rm.off))
				continue
			}
			if altered != "" && !packed {
				r.Fail(VViolation, "mirror", k.Name, inst, w.Pos(rm.pos), fmt.Sprintf("the decoder takes the whole word at offset %v as %s, but the encoder writes %s there: a decoded value is not encoded back to the bytes it came from", rm.off, rm.field, altered))
				continue
			}
			if computed != "" {
				r.Fail(VViolation, "mirror", k.Name, inst, w.Pos(rm.pos), fmt.Sprintf("the decoder fills %s from offset %v, where the encoder writes %s, a value computed from other parts of the message: a decoded value whose field differs from that (a total length larger than the carried bytes) is not reproduced", rm.field, rm.off, computed))
				continue
			}
			r.Fail(VViolation, "mirror", k.Name, inst, w.Pos(rm.pos), fmt.Sprintf("the decoder fills %s from offset %v, but the encoder never writes that field: a round trip does not reproduce the bytes", rm.field, rm.off))
		}
	}
}

var layoutCache map[string]*Layout

// specDerived: the layout table of the kind puts exactly this computed source at this offset.
func specDerived(kind, off, src string) bool {
	if layoutCache == nil {
		layoutCache, _ = loadLayouts()
		if layoutCache == nil {
			layoutCache = map[string]*Layout{}
		}
	}
	t := layoutCache[kind]
	if t == nil {
		return false
	}
	for _, row := range t.Fields {
		if row[0] == off && row[2] == src {
			return true
		}
	}
	return false
}

// bitPacked: the rendered source combines its parts with bit operations (shifts, and/or): a packed word.
func bitPacked(raw string) bool {
	return strings.Contains(raw, "<<") || strings.Contains(raw, ">>") || strings.Contains(raw, "|") || strings.Contains(raw, "&") || strings.Contains(raw, "opq(")
}

var recvPathRE = regexp.MustCompile(`\$(\.[A-Za-z0-9_]+)+`)

// mentionsField: the rendered source names the field, a part of it, or a structure it is part of.
func mentionsField(raw, field string) bool {
	for _, p := range recvPathRE.FindAllString(raw, -1) {
		if p == field || strings.HasPrefix(field, p+".") || strings.HasPrefix(p, field+".") {
			return true
		}
	}
	return false
}

func orderName(o string) string {
	switch o {
	case "be":
		return "big"
	case "le":
		return "little"
	}
	return "?"
}

// dispatcherCases maps the constant case values of the switch statements of a
// dispatcher to the kind allocated in that clause.
func dispatcherCases(w *World, fi *FuncInfo) map[int64]string {
	out := dispatcherCasesIn(w, fi)
	defer func() {
		// a code handled before the switch by `if x == CODE { … }` (directly or through a helper that
		// allocates the kind) is a case as well
		for v, k := range dispatchIfCases(w, fi) {
			if _, dup := out[v]; !dup {
				out[v] = k
			}
		}
	}()
	// a lookup table (package-level map or slice of constructors indexed by the code) is a switch written
	// as data: each entry is a case
	for v, k := range dispatchTableCases(w, fi) {
		if _, dup := out[v]; !dup {
			out[v] = k
		}
	}
	if len(out) > 0 {
		return out
	}
	// the selection may live in a helper the decoder calls (one level): newBody(type) with a switch on its parameter
	info := fi.Pkg.TypesInfo
	ast.Inspect(fi.Decl.Body, func(n ast.Node) bool {
		c, ok := n.(*ast.CallExpr)
		if !ok || len(out) > 0 {
			return true
		}
		if hf := w.FuncOf(w.calleeOf(info, c)); hf != nil && hf != fi && hf.Decl.Body != nil && hf.Decl.Name.Name != "UnmarshalBinary" {
			if hc := dispatcherCasesIn(w, hf); len(hc) > 0 {
				out = hc
			}
		}
		return true
	})
	return out
}

func dispatcherCasesIn(w *World, fi *FuncInfo) map[int64]string {
	out := map[int64]string{}
	info := fi.Pkg.TypesInfo
	ast.Inspect(fi.Decl.Body, func(n ast.Node) bool {
		sw, ok := n.(*ast.SwitchStmt)
		if !ok {
			return true
		}
		// a clause that ends in `fallthrough` allocates what the next clause allocates
		fellTo := map[*ast.CaseClause]*ast.CaseClause{}
		for i, cc := range sw.Body.List {
			c := cc.(*ast.CaseClause)
			if n := len(c.Body); n > 0 && i+1 < len(sw.Body.List) {
				if b, ok := c.Body[n-1].(*ast.BranchStmt); ok && b.Tok == token.FALLTHROUGH {
					fellTo[c] = sw.Body.List[i+1].(*ast.CaseClause)
				}
			}
		}
		for _, cc := range sw.Body.List {
			c := cc.(*ast.CaseClause)
			kind := ""
			body := c.Body
			for t, hops := fellTo[c], 0; t != nil && hops < 64; t, hops = fellTo[t], hops+1 {
				body = append(append([]ast.Stmt{}, body...), t.Body...)
			}
			for _, st := range body {
				ast.Inspect(st, func(m ast.Node) bool {
					if _, isSw := m.(*ast.SwitchStmt); isSw {
						return false // nested dispatch (error / experimenter error): handled by its own switch
					}
					if kind != "" {
						return true
					}
					// &T{…}
					if u, ok := m.(*ast.UnaryExpr); ok && u.Op == token.AND {
						if cl, ok := unparen(u.X).(*ast.CompositeLit); ok {
							if kk := w.KindOfType(info.TypeOf(cl)); kk != nil {
								kind = kk.Name
							}
						}
						return true
					}
					call, ok := m.(*ast.CallExpr)
					if !ok {
						return true
					}
					if id, ok := call.Fun.(*ast.Ident); ok && id.Name == "new" && len(call.Args) == 1 {
						if kk := w.KindOfType(info.TypeOf(call.Args[0])); kk != nil {
							kind = kk.Name
						}
						return true
					}
					if t := info.TypeOf(call); t != nil {
						if kk := w.KindOfType(t); kk != nil {
							if fn := w.calleeOf(info, call); fn != nil && strings.HasPrefix(fn.Name(), "New") {
								kind = kk.Name
							}
						}
					}
					// the clause's work moved into a package-level helper that allocates and decodes
					if kind == "" {
						if fn := w.calleeOf(info, call); fn != nil {
							if hf := w.FuncOf(fn); hf != nil && hf != fi && hf.Recv == nil && hf.Decl.Body != nil {
								if sig := fn.Type().(*types.Signature); sig.Results().Len() >= 1 {
									rt := sig.Results().At(0).Type()
									_, isIface := rt.Underlying().(*types.Interface)
									if isIface || w.KindOfType(rt) != nil {
										kind = allocatedKind(w, info, call.Fun, 0)
									}
								}
							}
						}
					}
					return true
				})
			}
			for _, e := range c.List {
				if v, ok := constIntOf(info, e); ok && kind != "" {
					if _, dup := out[v]; !dup {
						out[v] = kind
					}
				}
			}
		}
		return true
	})
	return out
}

// allocatedKind finds the kind a constructor-like expression or function body yields: new(T), &T{…},
// NewT(…), or a function literal / named function that returns one of these.
func allocatedKind(w *World, info *types.Info, e ast.Expr, depth int) string {
	kind := ""
	var scan func(n ast.Node)
	scan = func(n ast.Node) {
		ast.Inspect(n, func(m ast.Node) bool {
			if kind != "" {
				return false
			}
			if u, ok := m.(*ast.UnaryExpr); ok && u.Op == token.AND {
				if cl, ok := unparen(u.X).(*ast.CompositeLit); ok {
					if kk := w.KindOfType(info.TypeOf(cl)); kk != nil {
						kind = kk.Name
					}
				}
				return true
			}
			call, ok := m.(*ast.CallExpr)
			if !ok {
				return true
			}
			if id, ok := call.Fun.(*ast.Ident); ok && id.Name == "new" && len(call.Args) == 1 {
				if kk := w.KindOfType(info.TypeOf(call.Args[0])); kk != nil {
					kind = kk.Name
				}
				return true
			}
			if t := info.TypeOf(call); t != nil {
				if kk := w.KindOfType(t); kk != nil {
					if fn := w.calleeOf(info, call); fn != nil && strings.HasPrefix(fn.Name(), "New") {
						kind = kk.Name
					}
				}
			}
			return true
		})
	}
	switch x := unparen(e).(type) {
	case *ast.FuncLit:
		scan(x.Body)
	case *ast.Ident, *ast.SelectorExpr:
		// a named constructor used as a value
		var id *ast.Ident
		if i, ok := x.(*ast.Ident); ok {
			id = i
		} else {
			id = x.(*ast.SelectorExpr).Sel
		}
		if fn, ok := info.Uses[id].(*types.Func); ok {
			if sig, ok := fn.Type().(*types.Signature); ok && sig.Results().Len() >= 1 {
				if kk := w.KindOfType(sig.Results().At(0).Type()); kk != nil && strings.HasPrefix(fn.Name(), "New") {
					kind = kk.Name
				} else if hf := w.FuncOf(fn); hf != nil && hf.Decl.Body != nil && depth < 2 {
					scan(hf.Decl.Body)
				}
			}
		}
	default:
		scan(e)
	}
	return kind
}

// dispatchIfCases: `if x == CODE { … }` statements of the dispatcher whose body allocates a kind, itself
// or through a same-package helper it calls.
func dispatchIfCases(w *World, fi *FuncInfo) map[int64]string {
	out := map[int64]string{}
	info := fi.Pkg.TypesInfo
	ast.Inspect(fi.Decl.Body, func(n ast.Node) bool {
		is, ok := n.(*ast.IfStmt)
		if !ok {
			return true
		}
		be, ok := unparen(is.Cond).(*ast.BinaryExpr)
		if !ok || be.Op != token.EQL {
			return true
		}
		code, ok := constIntOf(info, be.Y)
		if !ok {
			if code, ok = constIntOf(info, be.X); !ok {
				return true
			}
		}
		kind := ""
		for _, st := range is.Body.List {
			if kind != "" {
				break
			}
			ast.Inspect(st, func(m ast.Node) bool {
				if kind != "" {
					return false
				}
				if _, isSw := m.(*ast.SwitchStmt); isSw {
					return false
				}
				if e, ok := m.(ast.Expr); ok {
					if k := directAlloc(w, info, e); k != "" {
						kind = k
						return false
					}
				}
				if c, ok := m.(*ast.CallExpr); ok {
					if hf := w.FuncOf(w.calleeOf(info, c)); hf != nil && hf != fi && hf.Pkg == fi.Pkg && hf.Decl.Body != nil && hf.Decl.Name.Name != "UnmarshalBinary" {
						ast.Inspect(hf.Decl.Body, func(q ast.Node) bool {
							if kind != "" {
								return false
							}
							if e, ok := q.(ast.Expr); ok {
								if k := directAlloc(w, hf.Pkg.TypesInfo, e); k != "" {
									kind = k
								}
							}
							return true
						})
					}
				}
				return true
			})
		}
		if kind != "" {
			if _, dup := out[code]; !dup {
				out[code] = kind
			}
		}
		return true
	})
	return out
}

// directAlloc: e is new(T), &T{…} or NewT(…) of a kind.
func directAlloc(w *World, info *types.Info, e ast.Expr) string {
	switch x := e.(type) {
	case *ast.UnaryExpr:
		if x.Op == token.AND {
			if cl, ok := unparen(x.X).(*ast.CompositeLit); ok {
				if kk := w.KindOfType(info.TypeOf(cl)); kk != nil {
					return kk.Name
				}
			}
		}
	case *ast.CallExpr:
		if id, ok := x.Fun.(*ast.Ident); ok && id.Name == "new" && len(x.Args) == 1 {
			if kk := w.KindOfType(info.TypeOf(x.Args[0])); kk != nil {
				return kk.Name
			}
			return ""
		}
		if t := info.TypeOf(x); t != nil {
			if kk := w.KindOfType(t); kk != nil {
				if fn := w.calleeOf(info, x); fn != nil && strings.HasPrefix(fn.Name(), "New") {
					return kk.Name
				}
			}
		}
	}
	return ""
}

// dispatchTableCases: the entries of the package-level tables (map or slice composite literals with
// constant keys) that the function indexes, as code → kind.
func dispatchTableCases(w *World, fi *FuncInfo) map[int64]string {
	out := map[int64]string{}
	info := fi.Pkg.TypesInfo
	seen := map[*types.Var]bool{}
	var visit func(body ast.Node, depth int)
	visit = func(body ast.Node, depth int) {
		ast.Inspect(body, func(n ast.Node) bool {
			if c, ok := n.(*ast.CallExpr); ok && depth < 1 {
				// the table may be consulted in a one-level helper
				if hf := w.FuncOf(w.calleeOf(info, c)); hf != nil && hf != fi && hf.Pkg == fi.Pkg && hf.Decl.Body != nil && hf.Decl.Name.Name != "UnmarshalBinary" {
					visit(hf.Decl.Body, depth+1)
				}
			}
			ix, ok := n.(*ast.IndexExpr)
			if !ok {
				return true
			}
			id, ok := unparen(ix.X).(*ast.Ident)
			if !ok {
				return true
			}
			v, ok := info.Uses[id].(*types.Var)
			if !ok || v.Pkg() == nil || v.Parent() != v.Pkg().Scope() || seen[v] {
				return true
			}
			seen[v] = true
			init, pkg := w.globalInit(v)
			cl, ok := unparen(init).(*ast.CompositeLit)
			if !ok || pkg == nil {
				return true
			}
			for _, el := range cl.Elts {
				kv, ok := el.(*ast.KeyValueExpr)
				if !ok {
					continue
				}
				code, ok := constIntOf(pkg.TypesInfo, kv.Key)
				if !ok {
					continue
				}
				if k := allocatedKind(w, pkg.TypesInfo, kv.Value, 0); k != "" {
					if _, dup := out[code]; !dup {
						out[code] = k
					}
				}
			}
			return true
		})
	}
	visit(fi.Decl.Body, 0)
	return out
}

func (w *World) calleeOf(info *types.Info, call *ast.CallExpr) *types.Func {
	switch f := unparen(call.Fun).(type) {
	case *ast.Ident:
		fn, _ := info.Uses[f].(*types.Func)
		return fn
	case *ast.SelectorExpr:
		fn, _ := info.Uses[f.Sel].(*types.Func)
		return fn
	}
	return nil
}

func codesRule(w *World, r *Report) {
	codes, err := loadCodes()
	if err != nil {
		r.Fail(VUnmapped, "codes", "spec/codes.json", "", "-", err.Error())
		return
	}
	type fam struct {
		disp   string
		table  map[string]string
		values map[string]int64
	}
	fams := []fam{
		{"openflow13.DecodeAction", codes.CtorAction, codes.ActionType},
		{"openflow13.DecodeInstr", codes.CtorInstr, codes.InstrType},
		{"openflow13.DecodeNxAction", codes.CtorNxast, codes.Nxast},
		{"openflow13.Parse", codes.CtorOfpType, codes.OfpType},
	}
	for _, f := range fams {
		dfi := w.Funcs[f.disp]
		if dfi == nil {
			r.Fail(VViolation, "codes", f.disp, "", "-", "dispatcher no longer exists (anchor cannot be resolved)")
			continue
		}
		cases := dispatcherCases(w, dfi)
		var cns []string
		for cn := range f.table {
			cns = append(cns, cn)
		}
		sort.Strings(cns)
		for _, cn := range cns {
			cfi := w.Funcs[cn]
			if cfi == nil {
				continue // reported by C01/C02
			}
			ck := w.kindOfCtor(cfi)
			if ck == nil {
				continue
			}
			code, ok := f.values[f.table[cn]]
			if !ok {
				continue
			}
			// vendor messages all share type EXPERIMENTER and are told apart by decodeVendorData; bare headers by nothing
			if f.disp == "openflow13.Parse" && (ck.Name == "common.Header" || f.table[cn] == "EXPERIMENTER") {
				if got, ok := cases[code]; ok {
					want := ck.Name
					if f.table[cn] == "EXPERIMENTER" {
						want = "openflow13.VendorHeader"
					}
					if got == want {
						r.OK("codes", f.disp, fmt.Sprintf("%d:%s", code, cn), w.Pos(dfi.Decl.Pos()), fmt.Sprintf("type %d (%s) is decoded as %s", code, f.table[cn], got), true)
					} else {
						r.Fail(VViolation, "codes", f.disp, fmt.Sprintf("%d:%s", code, cn), w.Pos(dfi.Decl.Pos()), fmt.Sprintf("type %d (%s): %s builds a %s, the parser decodes it as %s", code, f.table[cn], cn, want, got))
					}
				} else {
					r.Fail(VViolation, "codes", f.disp, fmt.Sprintf("%d:%s", code, cn), w.Pos(dfi.Decl.Pos()), fmt.Sprintf("type %d (%s), which %s builds, has no decoding case", code, f.table[cn], cn))
				}
				continue
			}
			got, ok := cases[code]
			inst := fmt.Sprintf("%d:%s", code, cn)
			switch {
			case !ok:
				r.Fail(VViolation, "codes", f.disp, inst, w.Pos(dfi.Decl.Pos()), fmt.Sprintf("code %d (%s), which %s stores, has no decoding case: the value cannot be parsed back", code, f.table[cn], cn))
			case got != ck.Name:
				r.Fail(VViolation, "codes", f.disp, inst, w.Pos(dfi.Decl.Pos()), fmt.Sprintf("code %d (%s): %s builds a %s, the dispatcher decodes it as %s", code, f.table[cn], cn, ck.Name, got))
			default:
				r.OK("codes", f.disp, inst, w.Pos(dfi.Decl.Pos()), fmt.Sprintf("code %d (%s) ↔ %s", code, f.table[cn], got), true)
			}
		}
	}
}

// retainRule: in every list loop of a decoder that decodes a child per
// iteration, the decoded element is stored into the receiver on the path that
// reaches the back edge.
func retainRule(w *World, r *Report, dfi *FuncInfo) {
	info := dfi.Pkg.TypesInfo
	var recv types.Object
	if dfi.Decl.Recv != nil && len(dfi.Decl.Recv.List) > 0 && len(dfi.Decl.Recv.List[0].Names) > 0 {
		recv = info.Defs[dfi.Decl.Recv.List[0].Names[0]]
	}
	li := 0
	ast.Inspect(dfi.Decl.Body, func(n ast.Node) bool {
		fs, ok := n.(*ast.ForStmt)
		if !ok {
			return true
		}
		// does the body decode something?
		var decoded []types.Object
		ast.Inspect(fs.Body, func(m ast.Node) bool {
			as, ok := m.(*ast.AssignStmt)
			if !ok {
				return true
			}
			for _, rhs := range as.Rhs {
				c, ok := unparen(rhs).(*ast.CallExpr)
				if !ok {
					continue
				}
				name := ""
				switch f := unparen(c.Fun).(type) {
				case *ast.Ident:
					name = f.Name
				case *ast.SelectorExpr:
					name = f.Sel.Name
				}
				if strings.HasPrefix(name, "Decode") || name == "Parse" || name == "new" || strings.HasPrefix(name, "New") {
					if o := identObj(info, as.Lhs[0]); o != nil {
						decoded = append(decoded, o)
					}
				}
			}
			return true
		})
		usesUnmarshal := false
		ast.Inspect(fs.Body, func(m ast.Node) bool {
			if c, ok := m.(*ast.CallExpr); ok {
				if se, ok := unparen(c.Fun).(*ast.SelectorExpr); ok && (se.Sel.Name == "UnmarshalBinary" || strings.HasPrefix(se.Sel.Name, "Decode")) {
					usesUnmarshal = true
				}
				if id, ok := unparen(c.Fun).(*ast.Ident); ok && (strings.HasPrefix(id.Name, "Decode") || id.Name == "Parse") {
					usesUnmarshal = true
				}
			}
			return true
		})
		if !usesUnmarshal || len(decoded) == 0 {
			return true
		}
		li++
		stored := false
		ast.Inspect(fs.Body, func(m ast.Node) bool {
			as, ok := m.(*ast.AssignStmt)
			if !ok {
				return true
			}
			for i, l := range as.Lhs {
				// recv.F = append(recv.F, elem)  or a local slice later assigned to recv.F
				if i >= len(as.Rhs) {
					continue
				}
				c, ok := unparen(as.Rhs[i]).(*ast.CallExpr)
				if !ok {
					continue
				}
				if id, ok := c.Fun.(*ast.Ident); !ok || id.Name != "append" || len(c.Args) < 2 {
					continue
				}
				usesElem := false
				for _, a := range c.Args[1:] {
					for _, d := range decoded {
						if usesObj(info, a, d) {
							usesElem = true
						}
					}
				}
				if !usesElem {
					continue
				}
				if se, ok := unparen(l).(*ast.SelectorExpr); ok {
					if id, ok := unparen(se.X).(*ast.Ident); ok && recv != nil && info.Uses[id] == recv {
						stored = true
					}
				}
				if lo := identObj(info, l); lo != nil {
					// a local list: must reach the receiver after the loop
					ast.Inspect(dfi.Decl.Body, func(q ast.Node) bool {
						if a2, ok := q.(*ast.AssignStmt); ok && a2.Pos() > fs.End() {
							for j, l2 := range a2.Lhs {
								if se, ok := unparen(l2).(*ast.SelectorExpr); ok && j < len(a2.Rhs) && identObj(info, a2.Rhs[j]) == lo {
									if id, ok := unparen(se.X).(*ast.Ident); ok && recv != nil && info.Uses[id] == recv {
										stored = true
									}
								}
							}
						}
						return true
					})
				}
			}
			return true
		})
		inst := fmt.Sprintf("loop#%d", li)
		if stored {
			r.OK("retain", dfi.Key, inst, w.Pos(fs.Pos()), "the decoded element is appended to a list of the receiver", true)
		} else {
			r.Fail(VViolation, "retain", dfi.Key, inst, w.Pos(fs.Pos()), "the loop decodes an element per iteration but never stores it into the receiver: what was on the wire is dropped")
		}
		return true
	})
}

// iteArms enumerates the values of a term over the branches of its ite atoms (at most 8).
func iteArms(t *Term) []*Term {
	for _, k := range t.keys() {
		a := t.Atoms[k]
		if a.Kind != "ite" {
			continue
		}
		rest := t.AddScaled(FromAtom(a), -t.K[k])
		var out []*Term
		for _, arm := range a.Sub {
			for _, x := range iteArms(rest.AddScaled(arm, t.K[k])) {
				out = append(out, x)
				if len(out) > 8 {
					return out
				}
			}
		}
		return out
	}
	return []*Term{t}
}

// freshRule: a value handed to a child decoder inside a decoding loop is either allocated in that
// iteration, or the child decoder overwrites every field of it unconditionally. A scratch value shared
// between iterations keeps what an earlier element left in the fields the later decode does not
// assign (a mask, an optional part), and a shared pointer makes every list element the same object.
func freshRule(w *World, r *Report, dfi *FuncInfo) {
	info := dfi.Pkg.TypesInfo
	li := 0
	ast.Inspect(dfi.Decl.Body, func(n ast.Node) bool {
		var body *ast.BlockStmt
		switch l := n.(type) {
		case *ast.ForStmt:
			body = l.Body
		case *ast.RangeStmt:
			body = l.Body
		default:
			return true
		}
		loopPos := n.Pos()
		ast.Inspect(body, func(m ast.Node) bool {
			c, ok := m.(*ast.CallExpr)
			if !ok {
				return true
			}
			se, ok := unparen(c.Fun).(*ast.SelectorExpr)
			if !ok || se.Sel.Name != "UnmarshalBinary" {
				return true
			}
			x := unparen(se.X)
			if u, ok := x.(*ast.UnaryExpr); ok && u.Op == token.AND {
				x = unparen(u.X)
			}
			id, ok := x.(*ast.Ident)
			if !ok {
				return true // a field of the receiver or of another value: not a per-iteration scratch
			}
			obj, _ := info.Uses[id].(*types.Var)
			if obj == nil || obj.IsField() {
				return true
			}
			li++
			inst := fmt.Sprintf("%s@loop#%d", id.Name, li)
			if obj.Pos() >= body.Pos() && obj.Pos() <= body.End() {
				r.OK("fresh", dfi.Key, inst, w.Pos(c.Pos()), id.Name+" is declared inside the loop body: a new value per element", false)
				return true
			}
			// assigned a fresh allocation inside the body before the call?
			fresh := false
			ast.Inspect(body, func(q ast.Node) bool {
				as, ok := q.(*ast.AssignStmt)
				if !ok || as.Pos() > c.Pos() {
					return true
				}
				for i, l := range as.Lhs {
					if identObj(info, l) != obj || i >= len(as.Rhs) {
						continue
					}
					switch rhs := unparen(as.Rhs[i]).(type) {
					case *ast.CallExpr:
						if fid, ok := unparen(rhs.Fun).(*ast.Ident); ok && (fid.Name == "new" || strings.HasPrefix(fid.Name, "New")) {
							fresh = true
						}
						if fse, ok := unparen(rhs.Fun).(*ast.SelectorExpr); ok && strings.HasPrefix(fse.Sel.Name, "New") {
							fresh = true
						}
					case *ast.UnaryExpr:
						if _, ok := unparen(rhs.X).(*ast.CompositeLit); ok && rhs.Op == token.AND {
							fresh = true
						}
					case *ast.CompositeLit:
						fresh = true
					}
				}
				return true
			})
			if fresh {
				r.OK("fresh", dfi.Key, inst, w.Pos(c.Pos()), id.Name+" is assigned a new value inside the loop body before it is decoded into", false)
				return true
			}
			// shared between iterations: acceptable only when the child decoder assigns every field unconditionally
			// and the element is stored by value
			if _, isPtr := obj.Type().Underlying().(*types.Pointer); isPtr {
				r.Fail(VViolation, "fresh", dfi.Key, inst, w.Pos(c.Pos()), fmt.Sprintf("the loop at %s decodes every element into the same object %s (allocated once outside the loop): all list entries alias the last element", w.Pos(loopPos), id.Name))
				return true
			}
			callee, _ := info.Uses[se.Sel].(*types.Func)
			cfi := w.FuncOf(callee)
			st := structOf(obj.Type())
			if cfi == nil || st == nil {
				r.Fail(VUndecided, "fresh", dfi.Key, inst, w.Pos(c.Pos()), "scratch value shared between iterations and the child decoder cannot be resolved")
				return true
			}
			ds := w.Interpret(cfi, "decode")
			uncond := map[string]bool{}
			for _, s := range ds.Stores {
				if s.Guard == "" && !s.Loop && s.Op == "=" {
					p := strings.TrimPrefix(s.Path, "$.")
					if i := strings.IndexAny(p, ".["); i >= 0 {
						p = p[:i]
					}
					uncond[p] = true
				}
			}
			var missing []string
			for i := 0; i < st.NumFields(); i++ {
				if !uncond[st.Field(i).Name()] {
					missing = append(missing, st.Field(i).Name())
				}
			}
			if len(missing) == 0 {
				r.OK("fresh", dfi.Key, inst, w.Pos(c.Pos()), id.Name+" is shared between iterations, but "+cfi.Key+" assigns every field unconditionally", true)
			} else {
				r.Fail(VViolation, "fresh", dfi.Key, inst, w.Pos(c.Pos()), fmt.Sprintf("the loop at %s decodes every element into the one value %s declared outside it, and %s does not assign %s on every path: an element keeps what the previous one left there", w.Pos(loopPos), id.Name, cfi.Key, strings.Join(missing, ", ")))
			}
			return true
		})
		return true // an inner loop is visited again with its own body as the scope
	})
}

// minInput: the least input length with which the decoder can succeed (largest constant K with K <= len(P)
// among the facts of its successful returns); 1 when unknown.
func minInput(w *World, fn *types.Func) int64 {
	fi := w.FuncOf(fn)
	if fi == nil {
		return 1
	}
	fs := w.Interpret(fi, "decode")
	best := int64(-1)
	for _, rt := range fs.Rets {
		if rt.IsErr || rt.St == nil {
			continue
		}
		k := int64(1)
		for _, f := range rt.St.facts {
			if f.Cond != "" || f.L == nil || f.R == nil {
				continue
			}
			d := f.R.Sub(f.L) // fact: L <= R
			// K <= len(P)  ⇔  R - L = len(P) - K
			if a := d.AddC(-d.C).SingleAtom(); a != nil && a.Kind == "len" && a.Path == "P" && d.K[a.Key()] == 1 && -d.C > k {
				k = -d.C
			}
		}
		if best < 0 || k < best {
			best = k
		}
	}
	if best < 1 {
		return 1
	}
	return best
}

// exhaustRule: a loop that decodes list elements runs as long as any element can remain: its condition
// compares the cursor itself with the end of the list. A condition that stops early by c bytes
// (`n+c < end`, `n < end-c`) loses a trailing element of at most c bytes, when the element kind can be
// that small.
func exhaustRule(w *World, r *Report, dfi *FuncInfo) {
	info := dfi.Pkg.TypesInfo
	li := 0
	ast.Inspect(dfi.Decl.Body, func(n ast.Node) bool {
		fs, ok := n.(*ast.ForStmt)
		if !ok || fs.Cond == nil {
			return true
		}
		// child decoders called in the body
		var children []*types.Func
		ast.Inspect(fs.Body, func(m ast.Node) bool {
			if c, ok := m.(*ast.CallExpr); ok {
				if se, ok := unparen(c.Fun).(*ast.SelectorExpr); ok && (se.Sel.Name == "UnmarshalBinary" || strings.HasPrefix(se.Sel.Name, "Decode")) {
					if fn, ok := info.Uses[se.Sel].(*types.Func); ok {
						children = append(children, fn)
					}
				}
				if id, ok := unparen(c.Fun).(*ast.Ident); ok && (strings.HasPrefix(id.Name, "Decode") || id.Name == "Parse") {
					if fn, ok := info.Uses[id].(*types.Func); ok {
						children = append(children, fn)
					}
				}
			}
			return true
		})
		if len(children) == 0 {
			return true
		}
		constOf := func(e ast.Expr) (int64, bool) {
			if c, ok := constIntOf(info, e); ok {
				return c, true
			}
			// a helper of the module that returns a constant on some path (`minRecordLen(x)`): the largest one
			if call, ok := unparen(e).(*ast.CallExpr); ok {
				var fn *types.Func
				switch f := unparen(call.Fun).(type) {
				case *ast.Ident:
					fn, _ = info.Uses[f].(*types.Func)
				case *ast.SelectorExpr:
					fn, _ = info.Uses[f.Sel].(*types.Func)
				}
				if fn != nil {
					if hfi := w.FuncOf(fn); hfi != nil && hfi.Decl != nil && hfi.Decl.Body != nil {
						best, found := int64(0), false
						ast.Inspect(hfi.Decl.Body, func(m ast.Node) bool {
							if rs, ok := m.(*ast.ReturnStmt); ok && len(rs.Results) == 1 {
								if c, ok := constIntOf(hfi.Pkg.TypesInfo, rs.Results[0]); ok && (!found || c > best) {
									best, found = c, true
								}
							}
							return true
						})
						if found {
							return best, true
						}
					}
				}
			}
			return 0, false
		}
		// the slack one comparison leaves: how many bytes can remain when it turns false
		slackOf := func(be *ast.BinaryExpr) (int64, bool) {
			var small, big ast.Expr
			strict := true
			switch be.Op {
			case token.LSS:
				small, big = be.X, be.Y
			case token.GTR:
				small, big = be.Y, be.X
			case token.LEQ:
				small, big, strict = be.X, be.Y, false
			case token.GEQ:
				small, big, strict = be.Y, be.X, false
			default:
				return 0, false
			}
			slack := int64(0)
			if b, ok := unparen(small).(*ast.BinaryExpr); ok && b.Op == token.ADD {
				if c, ok := constOf(b.Y); ok {
					slack += c
				} else if c, ok := constOf(b.X); ok {
					slack += c
				}
			}
			if b, ok := unparen(big).(*ast.BinaryExpr); ok && b.Op == token.SUB {
				if c, ok := constOf(b.Y); ok {
					slack += c
				}
			}
			// `end - n >= c` / `end - n > c`: the small side is the constant itself
			if c, ok := constOf(small); ok && c > 0 {
				if b, ok := unparen(big).(*ast.BinaryExpr); ok && b.Op == token.SUB {
					if _, isC := constOf(b.Y); !isC {
						slack += c
					}
				}
			}
			if !strict {
				slack-- // n+c <= end  ⇔  n+c-1 < end
			}
			return slack, true
		}
		// every comparison of a conjunction stops the loop on its own: the one that leaves most decides
		var cmps []*ast.BinaryExpr
		var flat func(e ast.Expr)
		flat = func(e ast.Expr) {
			if be, ok := unparen(e).(*ast.BinaryExpr); ok {
				if be.Op == token.LAND {
					flat(be.X)
					flat(be.Y)
					return
				}
				cmps = append(cmps, be)
			}
		}
		flat(fs.Cond)
		slack, any := int64(0), false
		slackSrc := "the loop condition " + types.ExprString(fs.Cond)
		for _, be := range cmps {
			if sl, ok := slackOf(be); ok {
				any = true
				if sl > slack {
					slack = sl
				}
			}
		}
		// `if end-n < c { break }` at the top of the body leaves the loop like a conjunct `end-n >= c` of the
		// condition would (the "rest is padding" exit): the bytes it can leave count as the condition's do
		for _, st := range fs.Body.List {
			is, ok := st.(*ast.IfStmt)
			if !ok || is.Init != nil || is.Else != nil || len(is.Body.List) != 1 {
				continue
			}
			if br, ok := is.Body.List[0].(*ast.BranchStmt); !ok || br.Tok != token.BREAK {
				continue
			}
			be, ok := unparen(is.Cond).(*ast.BinaryExpr)
			if !ok {
				continue
			}
			neg := map[token.Token]token.Token{token.LSS: token.GEQ, token.LEQ: token.GTR, token.GTR: token.LEQ, token.GEQ: token.LSS}
			op, ok := neg[be.Op]
			if !ok {
				continue
			}
			if sl, ok := slackOf(&ast.BinaryExpr{X: be.X, OpPos: be.OpPos, Op: op, Y: be.Y}); ok && sl > 0 {
				any = true
				if sl > slack {
					slack = sl
					slackSrc = "the early exit `if " + types.ExprString(is.Cond) + " { break }`"
				}
			}
		}
		if !any {
			return true
		}
		li++
		inst := fmt.Sprintf("loop#%d", li)
		k := int64(1 << 30)
		for _, ch := range children {
			m := minInput(w, ch)
			// the element cannot be smaller than the least size its kind reports
			if sig, ok := ch.Type().(*types.Signature); ok && sig.Recv() != nil {
				if ck := w.KindOfType(sig.Recv().Type()); ck != nil && ck.Len != nil {
					if ls := w.LenSummary(ck); ls != nil && ls.Term != nil {
						et := w.ExpandLens(ls.Term, 0)
						lb, okAll := int64(1<<40), true
						for _, leaf := range leavesUnder(et, nil) {
							b, ok := leaf.LowerBound()
							if !ok {
								okAll = false
								break
							}
							if b < lb {
								lb = b
							}
						}
						if okAll && lb > m && lb < 1<<40 && !declaredSizeCanWrap(et) {
							m = lb
						}
					}
				}
			}
			// reviewed minimum sizes the size terms do not give (the combinations of parts are constrained by
			// the format, not by the Go types)
			if sig, ok := ch.Type().(*types.Signature); ok && sig.Recv() != nil {
				if ck := w.KindOfType(sig.Recv().Type()); ck != nil {
					if rm, ok := reviewedMinElem[ck.Name]; ok && rm > m {
						m = rm
					}
				}
			}
			if m < k {
				k = m
			}
		}
		pos := w.Pos(fs.Pos())
		if slack > 0 && k <= slack {
			r.Fail(VViolation, "exhaust", dfi.Key, inst, pos, fmt.Sprintf("%s stops while up to %d bytes of the list remain, and an element can be as small as %d bytes: a trailing element of that size is never decoded", slackSrc, slack, k))
		} else if slack > 0 {
			r.OK("exhaust", dfi.Key, inst, pos, fmt.Sprintf("the condition leaves at most %d bytes, fewer than the smallest element (%d bytes)", slack, k), true)
		} else {
			r.OK("exhaust", dfi.Key, inst, pos, "the loop runs while the cursor is below the end of the list", false)
		}
		return true
	})
}

// keepAllRule: inside a loop that walks the input, an element is appended to the result list on every path
// that consumed it. An append guarded by a condition on a value read from the element itself (its length
// byte, a flag) with no alternative that also stores it or leaves the loop drops the elements for which the
// condition is false — they are skipped on the wire and missing from the decoded value.
func keepAllRule(w *World, r *Report, fi *FuncInfo) {
	info := fi.Pkg.TypesInfo
	var param types.Object
	for _, fl := range fi.Decl.Type.Params.List {
		for _, nm := range fl.Names {
			if o := info.Defs[nm]; o != nil && isByteSlice(o.Type()) {
				param = o
			}
		}
	}
	if param == nil || fi.Decl.Body == nil {
		return
	}
	readsInput := func(e ast.Expr) bool {
		found := false
		ast.Inspect(e, func(n ast.Node) bool {
			switch x := n.(type) {
			case *ast.IndexExpr:
				if identObj(info, x.X) == param {
					found = true
				}
			case *ast.SliceExpr:
				if identObj(info, x.X) == param {
					// a read through a fixed-width helper: binary.BigEndian.Uint16(in[pos:])
					found = true
				}
			}
			return true
		})
		return found
	}
	n := 0
	ast.Inspect(fi.Decl.Body, func(nd ast.Node) bool {
		loop, ok := nd.(*ast.ForStmt)
		if !ok {
			return true
		}
		// wire-derived locals of this loop body: x := in[pos], x := int(in[pos]), x := binary…(in[pos:])
		wire := map[types.Object]bool{}
		ast.Inspect(loop.Body, func(m ast.Node) bool {
			switch x := m.(type) {
			case *ast.AssignStmt:
				for i, l := range x.Lhs {
					if i < len(x.Rhs) {
						if o := identObj(info, l); o != nil && readsInput(x.Rhs[i]) {
							if _, isCall := unparen(x.Rhs[i]).(*ast.SliceExpr); !isCall && isIntType(o.Type()) {
								wire[o] = true
							}
						}
					}
				}
			case *ast.ValueSpec:
				for i, nm := range x.Names {
					if i < len(x.Values) && readsInput(x.Values[i]) {
						if o := info.Defs[nm]; o != nil && isIntType(o.Type()) {
							wire[o] = true
						}
					}
				}
			}
			return true
		})
		if len(wire) == 0 {
			return true
		}
		// appends and the if-conditions that enclose them inside the loop body
		var walk func(s ast.Stmt, conds []*ast.IfStmt)
		terminates := func(b *ast.BlockStmt) bool {
			if b == nil || len(b.List) == 0 {
				return false
			}
			switch b.List[len(b.List)-1].(type) {
			case *ast.ReturnStmt, *ast.BranchStmt:
				return true
			}
			return false
		}
		hasAppend := func(s ast.Node) bool {
			f := false
			ast.Inspect(s, func(m ast.Node) bool {
				if c, ok := m.(*ast.CallExpr); ok {
					if id, ok := unparen(c.Fun).(*ast.Ident); ok && id.Name == "append" {
						f = true
					}
				}
				return true
			})
			return f
		}
		walk = func(s ast.Stmt, conds []*ast.IfStmt) {
			switch x := s.(type) {
			case *ast.BlockStmt:
				for _, st := range x.List {
					walk(st, conds)
				}
			case *ast.IfStmt:
				walk(x.Body, append(append([]*ast.IfStmt(nil), conds...), x))
				if x.Else != nil {
					walk(x.Else, conds)
				}
			case *ast.SwitchStmt:
				for _, c := range x.Body.List {
					for _, st := range c.(*ast.CaseClause).Body {
						walk(st, conds)
					}
				}
			case *ast.AssignStmt:
				if !hasAppend(x) {
					return
				}
				n++
				inst := fmt.Sprintf("append#%d", n)
				for _, is := range conds {
					usesWire, usesLen := "", false
					ast.Inspect(is.Cond, func(m ast.Node) bool {
						if id, ok := m.(*ast.Ident); ok {
							if o := info.Uses[id]; o != nil && wire[o] {
								usesWire = id.Name
							}
							if info.Uses[id] == param {
								usesLen = true
							}
						}
						return true
					})
					if usesWire == "" || usesLen {
						continue
					}
					// the alternative must store the element too, or leave the loop
					altOK := false
					if is.Else != nil {
						if eb, ok := is.Else.(*ast.BlockStmt); ok && (hasAppend(eb) || terminates(eb)) {
							altOK = true
						}
						if ei, ok := is.Else.(*ast.IfStmt); ok && hasAppend(ei) {
							altOK = true
						}
					}
					// an if without else whose body ends the iteration (continue / break / return): the alternative is
					// what follows the if in the loop body
					if !altOK && is.Else == nil && terminates(is.Body) {
						for _, later := range stmtsAfter(loop.Body, is) {
							if hasAppend(later) {
								altOK = true
							}
							if rs, ok := later.(*ast.ReturnStmt); ok && rs != nil {
								altOK = true
							}
						}
					}
					if !altOK {
						r.Fail(VViolation, "keepall", fi.Key, inst, w.Pos(x.Pos()), fmt.Sprintf("the element is stored only when %s, a condition on the value %s read from the element itself, and the other branch neither stores it nor leaves the loop: elements for which it is false are consumed and dropped", types.ExprString(is.Cond), usesWire))
						return
					}
				}
				r.OK("keepall", fi.Key, inst, w.Pos(x.Pos()), "stored on every path that consumed the element (enclosing conditions are on the input length or have a storing/terminating alternative)", len(conds) > 0)
			}
		}
		walk(loop.Body, nil)
		return true
	})
}

// trailingRule: no decoder (kind decoders and the dispatchers, which are handed the rest of their parent's
// input) tests the length of its input for equality.
func trailingRule(w *World, r *Report) {
	var decoders []*FuncInfo
	for _, k := range w.KindsL {
		if k.Unmarshal == nil || !k.OwnUnmarshal {
			continue
		}
		if dfi := w.FuncOf(k.Unmarshal); dfi != nil {
			decoders = append(decoders, dfi)
		}
	}
	// the dispatchers are child decoders too: they are handed the rest of the parent's input (Parse inside a
	// bundle-add is followed by the bundle properties, DecodeAction inside a list by the next action)
	for _, key := range w.sortedFuncKeys() {
		fi := w.Funcs[key]
		if fi.Recv == nil && fi.Decl.Body != nil && (fi.Decl.Name.Name == "Parse" || strings.HasPrefix(fi.Decl.Name.Name, "Decode") || strings.HasPrefix(fi.Decl.Name.Name, "decode")) && !strings.HasPrefix(key, "protocol.") {
			for _, fl := range fi.Decl.Type.Params.List {
				if isByteSlice(fi.Pkg.TypesInfo.TypeOf(fl.Type)) {
					decoders = append(decoders, fi)
					break
				}
			}
		}
	}
	for _, dfi := range decoders {
		info := dfi.Pkg.TypesInfo
		var param types.Object
		for _, fl := range dfi.Decl.Type.Params.List {
			for _, nm := range fl.Names {
				if o := info.Defs[nm]; o != nil && isByteSlice(o.Type()) {
					param = o
				}
			}
		}
		bad := false
		// `if len(data) == K { return nil }`: the fixed part is all there is — a successful early exit, not a
		// refusal of trailing bytes (what follows the if handles the longer inputs)
		doneEarly := map[ast.Expr]bool{}
		ast.Inspect(dfi.Decl.Body, func(n ast.Node) bool {
			is, ok := n.(*ast.IfStmt)
			if !ok || is.Else != nil || len(is.Body.List) != 1 {
				return true
			}
			rs, ok := is.Body.List[0].(*ast.ReturnStmt)
			if !ok {
				return true
			}
			for _, res := range rs.Results {
				if id, ok := unparen(res).(*ast.Ident); !ok || id.Name != "nil" {
					return true
				}
			}
			if be, ok := unparen(is.Cond).(*ast.BinaryExpr); ok && be.Op == token.EQL {
				doneEarly[be] = true
			}
			return true
		})
		ast.Inspect(dfi.Decl.Body, func(n ast.Node) bool {
			be, ok := n.(*ast.BinaryExpr)
			if !ok || (be.Op != token.NEQ && be.Op != token.EQL) || doneEarly[be] {
				return true
			}
			isLen := func(e ast.Expr) bool {
				c, ok := unparen(e).(*ast.CallExpr)
				if !ok || len(c.Args) != 1 {
					return false
				}
				id, ok := c.Fun.(*ast.Ident)
				return ok && id.Name == "len" && identObj(info, c.Args[0]) == param && param != nil
			}
			if isLen(be.X) || isLen(be.Y) {
				// an equality test against 0 (empty input) is harmless; anything else rejects trailing bytes
				other := be.Y
				if isLen(be.Y) {
					other = be.X
				}
				if v, isC := constIntOf(info, other); isC && v == 0 {
					return true
				}
				bad = true
				r.Fail(VViolation, "trailing", dfi.Key, types.ExprString(be), w.Pos(be.Pos()), "the decoder compares the input length for (in)equality: inside a list the element is followed by the next one, so it decodes only as the last element")
			}
			return true
		})
		if !bad {
			r.OK("trailing", dfi.Key, "", w.Pos(dfi.Decl.Pos()), "no equality test on the input length", false)
		}
	}
}

// selfDecodeRule: a dispatcher (a function that takes the input bytes and hands back a decoded message or
// element, possibly with an error) returns only values on which it ran that value's own decoder. A value
// assembled by hand from parts of an earlier decode (an error message wrapped into an experimenter error
// without decoding the frame as one) does not hold what its decoder would have put there, and its encoder
// does not reproduce the frame.
func selfDecodeRule(w *World, r *Report, rule string) {
	for _, key := range w.sortedFuncKeys() {
		fi := w.Funcs[key]
		if fi.Decl.Body == nil || fi.Pkg.Name == "protocol" || fi.Pkg.Name == "util" {
			continue
		}
		sig := fi.Obj.Type().(*types.Signature)
		if sig.Results().Len() != 2 || !isErrorType(sig.Results().At(1).Type()) {
			continue // a helper that only allocates by code (no error result) leaves the decoding to its caller
		}
		hasBytes := false
		for i := 0; i < sig.Params().Len(); i++ {
			if isByteSlice(sig.Params().At(i).Type()) {
				hasBytes = true
			}
		}
		if !hasBytes {
			continue
		}
		rt := sig.Results().At(0).Type()
		if _, isIface := rt.Underlying().(*types.Interface); !isIface {
			continue // constructors from bytes return their own concrete kind
		}
		if isErrorType(rt) {
			continue
		}
		fs := w.Interpret(fi, "decode")
		if fs == nil {
			continue
		}
		decoded := map[string]bool{}
		for _, c := range fs.Calls {
			if c.Callee == nil {
				continue
			}
			switch c.Callee.Name() {
			case "UnmarshalBinary", "Read", "Decode":
			default:
				continue
			}
			switch v := c.Recv.(type) {
			case ObjV:
				decoded[v.Path] = true
			case AltV:
				for _, o := range v.Alts {
					decoded[o.Path] = true
				}
			case MaybeV:
				decoded[v.V.Path] = true
			}
		}
		seen := map[string]bool{}
		perKind := map[string]int{}
		check := func(o ObjV, pos token.Pos) {
			if !isLocalObj(o.Path) || seen[o.Path] {
				return
			}
			seen[o.Path] = true
			kname := "value"
			if k := w.KindOfType(o.Type); k != nil {
				kname = k.Name
				if k.Unmarshal == nil {
					return
				}
			} else {
				return
			}
			perKind[kname]++
			inst := kname
			if perKind[kname] > 1 {
				inst = fmt.Sprintf("%s#%d", kname, perKind[kname])
			}
			if decoded[o.Path] {
				r.OK(rule, fi.Key, inst, w.Pos(pos), "the returned "+kname+" was filled by its own decoder", true)
			} else {
				r.Fail(VViolation, rule, fi.Key, inst, w.Pos(pos), "returns a "+kname+" on which its decoder was never run: the value is assembled by hand, so it does not hold what decoding the frame as "+kname+" yields and its encoding does not reproduce the frame")
			}
		}
		for _, rt := range fs.Rets {
			if rt.IsErr || len(rt.Vals) == 0 {
				continue
			}
			switch v := rt.Vals[0].(type) {
			case ObjV:
				check(v, rt.Pos)
			case AltV:
				for _, o := range v.Alts {
					check(o, rt.Pos)
				}
			case MaybeV:
				check(v.V, rt.Pos)
			}
		}
	}
}

func init() {
	extraDumps["errexits"] = func(w *World, args []string) {
		for _, key := range w.sortedFuncKeys() {
			fi := w.Funcs[key]
			if fi.Decl.Body == nil || fi.Decl.Name.Name != "UnmarshalBinary" && !strings.HasPrefix(fi.Decl.Name.Name, "Decode") && fi.Decl.Name.Name != "Parse" {
				continue
			}
			fs := w.Interpret(fi, "decode")
			if fs == nil {
				continue
			}
			for _, rt := range fs.Rets {
				if rt.IsErr {
					fmt.Printf("%-50s %s [%s]\n", key, w.Pos(rt.Pos), rt.Guard)
				}
			}
		}
	}
}

// stmtsAfter: the statements that follow target in the statement list (of root or any nested block) that
// contains it directly.
func stmtsAfter(root *ast.BlockStmt, target ast.Stmt) []ast.Stmt {
	var out []ast.Stmt
	ast.Inspect(root, func(n ast.Node) bool {
		var list []ast.Stmt
		switch b := n.(type) {
		case *ast.BlockStmt:
			list = b.List
		case *ast.CaseClause:
			list = b.Body
		default:
			return true
		}
		for i, st := range list {
			if st == target {
				out = list[i+1:]
			}
		}
		return true
	})
	return out
}

// reviewedMinElem: the smallest element of a kind that the format allows, where the size term's lower
// bound is weaker. NXLearnSpec (OVS nicira-ext.h, NXAST_LEARN flow_mod_spec): a 2-byte header followed by
// a source (a 6-byte field reference, or 2*ceil(n_bits/16) >= 2 bytes of immediate data) and a destination
// (a 6-byte field reference; none only for NX_LEARN_DST_OUTPUT, whose source must be a field): 8 bytes at
// least. A header of zero ends the list, which is why the decoder stops when fewer than 8 bytes remain.
var reviewedMinElem = map[string]int64{
	"openflow13.NXLearnSpec": 8,
}

// ---- the rest of the input is taken whenever there is one ----
//
// tailGuardRule: a decoder that copies "everything from offset N to the end" into a field (payload, options,
// trailing data) under a test on the input length must admit every input that has a byte at N. A guard
// that asks for more (len > 20 in front of data[8:]) silently drops short tails: the bytes were on the wire
// and are not in the decoded value. (A guard that asks for less is the bounds rule's business.)
var tailGuardForms = []struct {
	re   *regexp.Regexp
	plus int64 // smallest admitted length = constant + plus
}{
	{regexp.MustCompile(`^(\d+)<len\(P\)$`), 1},
	{regexp.MustCompile(`^(\d+)<=len\(P\)$`), 0},
	{regexp.MustCompile(`^!\(len\(P\)<(\d+)\)$`), 0},
	{regexp.MustCompile(`^!\(len\(P\)<=(\d+)\)$`), 1},
}

func tailGuardRule(w *World, r *Report, rule string, inScope func(k *Kind) bool) {
	for _, k := range w.KindsL {
		if k.Unmarshal == nil || !k.OwnUnmarshal || !inScope(k) {
			continue
		}
		dfi := w.FuncOf(k.Unmarshal)
		if dfi == nil {
			continue
		}
		ds := w.Interpret(dfi, "decode")
		if ds == nil {
			continue
		}
		n := 0
		for _, rd := range ds.Reads {
			if rd.Kind != "bytes" && rd.Kind != "child" || rd.Off == nil || rd.W == nil || !rd.Off.IsConst() || rd.Loop != nil {
				continue
			}
			// to the end of the input: width = len(P) − offset
			if !rd.W.Add(rd.Off).Equal(LenOf("P")) {
				continue
			}
			// a child decoded from the very start, or into a local the decoder only looks at, is no payload
			if rd.Kind == "child" && (rd.Off.C == 0 || !strings.HasPrefix(rd.Src, "dec($.")) {
				continue
			}
			n++
			inst := fmt.Sprintf("%s@%d", rd.Src, rd.Off.C)
			min := int64(0)
			which := ""
			for _, c := range conjunctsOf(rd.Guard) {
				c = strings.TrimSpace(c)
				for _, f := range tailGuardForms {
					if m := f.re.FindStringSubmatch(c); m != nil {
						var v int64
						fmt.Sscan(m[1], &v)
						if v+f.plus > min {
							min, which = v+f.plus, c
						}
					}
				}
			}
			if min > rd.Off.C+1 {
				r.Fail(VViolation, rule, k.Name, inst, w.Pos(rd.Pos), fmt.Sprintf("the rest of the input from offset %d is taken only when %s: an input of %d to %d bytes has bytes there that the decoded value does not contain", rd.Off.C, which, rd.Off.C+1, min-1))
			} else {
				g := rd.Guard
				if g == "" {
					g = "unconditionally"
				} else {
					g = "under [" + g + "]"
				}
				r.OK(rule, k.Name, inst, w.Pos(rd.Pos), fmt.Sprintf("the rest of the input from offset %d is taken %s: every input with a byte there is admitted", rd.Off.C, g), true)
			}
		}
	}
}

// extentRule: list decoders advance by the size the decoded element reports; the encoder must have produced
// exactly that many bytes for it (size function ≡ bytes produced, as symbolic terms).
func extentRule(w *World, r *Report, rule string) {
	for _, k := range w.KindsL {
		if k.Marshal == nil || k.Unmarshal == nil || k.Len == nil || strings.HasPrefix(k.Name, "protocol.") {
			continue
		}
		pos := "-"
		if fi := w.FuncOf(k.Marshal); fi != nil {
			pos = w.Pos(fi.Decl.Pos())
		}
		sv := w.compareSize(k)
		if sv.Verdict == VOK {
			r.OK(rule, k.Name, "", pos, sv.Note, sv.Symbolic)
		} else {
			r.Fail(sv.Verdict, rule, k.Name, "", pos, "the size the element reports is not the number of bytes its encoder produces, so a list walker that advances by it loses the following elements: "+sv.Diag)
		}
	}
	builtRule(w, r, rule, func(k *Kind) bool { return k.Unmarshal != nil && !strings.HasPrefix(k.Name, "protocol.") })
}

// storedElsewhere: the decoder assigns the field (a reset, a default) under another path condition than guard.
func storedElsewhere(ds *FuncSummary, field, guard string) bool {
	for _, st := range ds.Stores {
		if strings.TrimSuffix(st.Path, "[]") == field && st.Guard != guard {
			return true
		}
	}
	return false
}
